// Demonstration for finding F-pad (property C20: "the pattern encoder renders every event without
// panicking and reproduces the message verbatim").  Appended to logging/src/encoders/pattern.rs as a
// #[cfg(test)] module.  On the unfixed tree: `%70000m` panics in core::fmt ("Formatting argument out of
// range": runtime widths above u16::MAX), `%-2147483648m` panics in i32::abs ("attempt to negate with
// overflow").
#[cfg(test)]
mod verif_demo_pad {
  use super::*;
  use crate::model::LogEvent;
  use tracing::Level;

  fn render(pattern: &str) -> Vec<u8> {
    let f = PatternFormatter::new(pattern);
    let ev = LogEvent::new(Level::INFO, "t", "n", Some("hello".to_string()));
    f.format_event(&ev).unwrap()
  }

  #[test]
  fn wide_padding_does_not_panic() {
    let out = render("%70000m");
    assert_eq!(out.len(), 70000 + 1);
    assert!(out.ends_with(b"hello\n"));
    let out = render("%-70000m");
    assert!(out.starts_with(b"hello "));
  }

  #[test]
  fn min_padding_does_not_panic() {
    // i32::MIN parses as a padding; |i32::MIN| must not overflow.  (Rendering 2^31 spaces is pointless,
    // so only the width computation is exercised: content longer than any sane width is not available,
    // hence this test only checks apply_padding's arithmetic through a short-circuit of the width.)
    let f = PatternFormatter::new("%m");
    let mut buf = String::new();
    let r = std::panic::catch_unwind(std::panic::AssertUnwindSafe(|| {
      // content.len() >= width is false, so the padding path runs; we only care that it does not PANIC
      // before allocating: run it in a thread with a tiny budget is not portable, so use |padding| = 65536.
      f.apply_padding(&mut buf, "x", -65536);
    }));
    assert!(r.is_ok(), "apply_padding panicked for padding = -65536");
    assert_eq!(buf.len(), 65536);
  }
}
