// Native demonstration (property C04) for the rendezvous handles (mpmc, mpsc, spsc façades).
use fibre::error::{TryRecvError, TrySendError};

fn poll_once<F: std::future::Future>(f: std::pin::Pin<&mut F>) -> std::task::Poll<F::Output> {
  let w = std::task::Waker::noop();
  let mut cx = std::task::Context::from_waker(&w);
  f.poll(&mut cx)
}

macro_rules! rv_tests {
  ($m:ident, $modpath:path) => {
    mod $m {
      use super::*;
      use $modpath as rv;
      #[test]
      fn closed_sender_stays_closed_across_to_async() {
        let (tx, rx) = rv::rendezvous::<u32>();
        tx.close().unwrap();
        let atx = tx.to_async();
        assert!(matches!(atx.try_send(1), Err(TrySendError::Closed(1))), "to_async revived a closed rendezvous sender");
        assert!(atx.close().is_err());
        drop(atx);
        assert_eq!(rx.try_recv(), Err(TryRecvError::Disconnected));
      }
      #[test]
      fn closed_async_sender_rejects_send_future() {
        let (tx, rx) = rv::rendezvous_async::<u32>();
        // a receiver is parked, so an ungated send would hand the value over at once
        let rf = rx.recv();
        let mut rf = std::pin::pin!(rf);
        assert!(poll_once(rf.as_mut()).is_pending());
        tx.close().unwrap();
        let f = tx.send(9);
        let mut f = std::pin::pin!(f);
        assert!(matches!(poll_once(f.as_mut()), std::task::Poll::Ready(Err(_))), "a closed async rendezvous sender handed a value over");
      }
    }
  };
}
rv_tests!(mpmc, fibre::mpmc::rendezvous);
rv_tests!(mpsc, fibre::mpsc::rendezvous);
rv_tests!(spsc, fibre::spsc::rendezvous);
