// Native demonstration of F-readmit-cost (property C14: "re-admitting a key updates its cost rather than duplicating it"):
// the policy reports the OLD cost when the key is later nominated.
use fibre_cache::policy::{clock::ClockPolicy, fifo::Fifo, lru::LruPolicy, sieve::SievePolicy, slru::SlruPolicy, CachePolicy};

fn readmit<P: CachePolicy<u32, ()>>(p: &P) -> u64 {
  p.on_admit(&7, 1);
  p.on_admit(&7, 5); // overwrite of key 7 with a larger value: cost 5
  let (victims, freed) = p.evict(u64::MAX);
  assert_eq!(victims, vec![7]);
  freed
}

#[test] fn lru_reports_new_cost() { assert_eq!(readmit(&LruPolicy::<u32>::new()), 5); }
#[test] fn slru_reports_new_cost() { assert_eq!(readmit(&SlruPolicy::<u32>::new(100)), 5); }
#[test] fn fifo_reports_new_cost() { assert_eq!(readmit(&Fifo::<u32>::new()), 5); }
#[test] fn clock_reports_new_cost() { assert_eq!(readmit(&ClockPolicy::<u32>::new()), 5); }
#[test] fn sieve_reports_new_cost() { assert_eq!(readmit(&SievePolicy::<u32>::new()), 5); }
