// Native demonstration (property C04) for the spsc handles.
use fibre::error::{TryRecvError, TrySendError};
use fibre::spsc;

#[test]
fn closed_spsc_sender_stays_closed_across_to_async() {
  let (tx, rx) = spsc::bounded_sync::<u32>(4);
  tx.try_send(1).unwrap();
  tx.close().unwrap();
  let mut atx = tx.to_async();
  assert!(matches!(atx.try_send(2), Err(TrySendError::Closed(2))), "to_async revived a closed spsc sender");
  assert!(atx.close().is_err());
  drop(atx);
  assert_eq!(rx.try_recv(), Ok(1));
  assert_eq!(rx.try_recv(), Err(TryRecvError::Disconnected), "the receiver must see Disconnected once the (only) sender was closed");
}

#[test]
fn closed_spsc_sender_rejects_send_batch() {
  let (tx, rx) = spsc::bounded_sync::<u32>(4);
  tx.close().unwrap();
  assert!(tx.send_batch(vec![1, 2]).is_err(), "a closed spsc sender sent a batch");
  assert_eq!(rx.try_recv(), Err(TryRecvError::Disconnected));
}
