// Native demonstration (property C06): a cancelled (woken, then dropped) mpmc receive future must pass the wake on.
use std::sync::atomic::{AtomicUsize, Ordering};
use std::sync::Arc;
use std::task::{Context, Poll, Wake, Waker};
use std::future::Future;

struct Count(AtomicUsize);
impl Wake for Count { fn wake(self: Arc<Self>) { self.0.fetch_add(1, Ordering::SeqCst); } }

#[test]
fn cancelled_mpmc_recv_future_forwards_its_wake() {
  let (tx, rx) = fibre::mpmc::bounded_async::<u32>(1);
  let rx2 = rx.clone();
  let (ca, cb) = (Arc::new(Count(AtomicUsize::new(0))), Arc::new(Count(AtomicUsize::new(0))));
  let (wa, wb) = (Waker::from(ca.clone()), Waker::from(cb.clone()));
  let mut fa = Box::pin(rx.recv());
  let mut fb = Box::pin(rx2.recv());
  assert!(fa.as_mut().poll(&mut Context::from_waker(&wa)).is_pending());
  assert!(fb.as_mut().poll(&mut Context::from_waker(&wb)).is_pending());
  tx.try_send(7).unwrap();
  assert_eq!(ca.0.load(Ordering::SeqCst), 1);
  drop(fa); // woken, then cancelled before it was polled again
  assert!(cb.0.load(Ordering::SeqCst) >= 1, "the second pending receiver was never woken although a value is buffered");
  assert!(matches!(fb.as_mut().poll(&mut Context::from_waker(&wb)), Poll::Ready(Ok(7))));
}

#[test]
fn cancelled_mpmc_send_future_forwards_its_wake() {
  let (tx, rx) = fibre::mpmc::bounded_async::<u32>(1);
  let tx2 = tx.clone();
  tx.try_send(1).unwrap(); // full
  let (ca, cb) = (Arc::new(Count(AtomicUsize::new(0))), Arc::new(Count(AtomicUsize::new(0))));
  let (wa, wb) = (Waker::from(ca.clone()), Waker::from(cb.clone()));
  let mut fa = Box::pin(tx.send(2));
  let mut fb = Box::pin(tx2.send(3));
  assert!(fa.as_mut().poll(&mut Context::from_waker(&wa)).is_pending());
  assert!(fb.as_mut().poll(&mut Context::from_waker(&wb)).is_pending());
  assert_eq!(rx.try_recv(), Ok(1)); // frees the slot and wakes the first parked sender
  assert_eq!(ca.0.load(Ordering::SeqCst), 1);
  drop(fa); // woken, then cancelled before it was polled again
  assert!(cb.0.load(Ordering::SeqCst) >= 1, "the second pending sender was never woken although the channel has space");
  assert!(matches!(fb.as_mut().poll(&mut Context::from_waker(&wb)), Poll::Ready(Ok(()))));
  assert_eq!(rx.try_recv(), Ok(3));
}
