// Demonstration for finding F-rv-cancel (property C01/C06): a timed-out rendezvous receive whose
// cancel CAS runs before it owns the core lock loses a value that the sender was told was delivered.
// Deterministic by lock queueing: main holds the core lock, the sender queues on it first, then the
// receiver times out (CAS WAITING->CANCELLED succeeds) and queues behind the sender.
// Appended to channels/src/internal/rendezvous.rs as a #[cfg(test)] module (needs the private `core`).
#[cfg(test)]
mod verif_demo_rv_cancel {
  use super::*;
  use std::sync::Arc;
  use std::time::Duration;

  #[test]
  fn timed_out_receiver_vs_committed_sender() {
    let sh = Arc::new(MpmcRvShared::<u32>::new());
    let a = {
      let sh = sh.clone();
      std::thread::spawn(move || sh.recv_timeout(Duration::from_millis(150)))
    };
    std::thread::sleep(Duration::from_millis(50)); // receiver parked, record linked
    let guard = sh.core.lock(); // "somebody" owns the core lock
    let b = {
      let sh = sh.clone();
      std::thread::spawn(move || sh.try_send(7))
    };
    std::thread::sleep(Duration::from_millis(300)); // receiver times out and queues behind the sender
    drop(guard);
    let rb = b.join().unwrap();
    let ra = a.join().unwrap();
    // A send that reports success must be received; a receive that reports Timeout must have no effect.
    if rb.is_ok() {
      assert_eq!(ra, Ok(7), "sender was told Ok(()) but the receiver returned {:?}: the value is lost", ra);
    } else {
      assert!(ra.is_err());
    }
  }
}
