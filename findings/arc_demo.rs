// Native demonstrations for property C14 on ArcPolicy.
use fibre_cache::policy::{arc::ArcPolicy, AdmissionDecision, CachePolicy};

fn admit(p: &ArcPolicy<u32>, k: u32, c: u64, nominated: &mut Vec<u32>) {
  if let AdmissionDecision::AdmitAndEvict(v) = <ArcPolicy<u32> as CachePolicy<u32, ()>>::on_admit(p, &k, c) {
    nominated.extend(v);
  }
}
fn evict(p: &ArcPolicy<u32>, n: u64) -> (Vec<u32>, u64) { <ArcPolicy<u32> as CachePolicy<u32, ()>>::evict(p, n) }

// F-arc-stuck: "frees at least the requested cost whenever its evictable keys are worth that much".
// After two ghost hits the target p is 2; with T1 = {b} (cost 1 < p) and T2 empty, replace() looks at T2 only.
#[test]
fn arc_evict_frees_requested_cost_when_t2_is_empty() {
  let p = ArcPolicy::<u32>::new(10);
  let mut nom = vec![];
  admit(&p, 1, 1, &mut nom);
  admit(&p, 2, 1, &mut nom);
  assert_eq!(evict(&p, 2).1, 2); // both go to the ghost list B1
  admit(&p, 1, 1, &mut nom); // ghost hit: p = 1
  admit(&p, 2, 1, &mut nom); // ghost hit: p = 2
  // two resident keys worth 2 in total are tracked; ask for 2
  let (victims, freed) = evict(&p, 2);
  assert_eq!(freed, 2, "only {:?} nominated although two keys worth 2 are tracked", victims);
}

// F-arc-untrack: "stops tracking an admitted key only by nominating it as a victim or on being told it was removed".
#[test]
fn arc_every_admitted_key_is_eventually_nominated() {
  let p = ArcPolicy::<u32>::new(2);
  let mut nominated = vec![];
  admit(&p, 1, 1, &mut nominated);
  admit(&p, 2, 1, &mut nominated);
  admit(&p, 3, 1, &mut nominated); // policy is full: replace() silently moves key 1 to a ghost list
  loop {
    let (v, _) = evict(&p, u64::MAX);
    if v.is_empty() { break; }
    nominated.extend(v);
  }
  nominated.sort();
  assert_eq!(nominated, vec![1, 2, 3], "a key that was admitted and never removed was never nominated");
}
