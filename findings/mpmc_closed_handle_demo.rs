// Native demonstration (property C04): a closed mpmc handle converted with to_async()/to_sync() was revived
// (closed = false), so it accepted operations again and its drop decremented the side count a second time.
use fibre::error::{TryRecvError, TrySendError};
use fibre::mpmc;

#[test]
fn closed_sender_stays_closed_across_to_async() {
  let (tx, rx) = mpmc::bounded::<u32>(2);
  let tx2 = tx.clone();
  tx.close().unwrap();
  let atx = tx.to_async();
  assert!(matches!(atx.try_send(1), Err(TrySendError::Closed(1))), "a closed handle converted with to_async() must still be closed");
  assert!(atx.close().is_err());
  drop(atx);
  // the other clone is alive: nothing is disconnected
  tx2.try_send(7).unwrap();
  assert_eq!(rx.try_recv(), Ok(7));
  assert_eq!(rx.try_recv(), Err(TryRecvError::Empty), "Disconnected reported while a sender clone is alive");
}

#[test]
fn closed_receiver_stays_closed_across_to_async() {
  let (tx, rx) = mpmc::bounded::<u32>(2);
  let rx2 = rx.clone();
  rx.close().unwrap();
  tx.try_send(5).unwrap();
  let arx = rx.to_async();
  assert_eq!(arx.try_recv(), Err(TryRecvError::Disconnected), "a closed receiver converted with to_async() must still be closed");
  drop(arx);
  assert!(tx.try_send(6).is_ok(), "Closed reported while a receiver clone is alive");
  assert_eq!(rx2.try_recv(), Ok(5));
}

#[test]
fn closed_receiver_rejects_recv_timeout() {
  let (tx, rx) = mpmc::bounded::<u32>(2);
  let rx2 = rx.clone();
  tx.try_send(5).unwrap();
  rx.close().unwrap();
  assert!(rx.recv_timeout(std::time::Duration::from_millis(10)).is_err(), "a closed Receiver took a value through recv_timeout");
  assert_eq!(rx2.try_recv(), Ok(5));
}

// A closed AsyncSender / AsyncReceiver must reject the future-returning forms as well.
fn poll_once<F: std::future::Future>(f: std::pin::Pin<&mut F>) -> std::task::Poll<F::Output> {
  let w = std::task::Waker::noop();
  let mut cx = std::task::Context::from_waker(&w);
  f.poll(&mut cx)
}

#[test]
fn closed_async_sender_rejects_send_future() {
  let (tx, rx) = mpmc::bounded_async::<u32>(2);
  let _tx2 = tx.clone();
  tx.close().unwrap();
  let f = tx.send(9);
  let mut f = std::pin::pin!(f);
  assert!(matches!(poll_once(f.as_mut()), std::task::Poll::Ready(Err(_))), "a closed AsyncSender sent a value through send()");
  assert_eq!(rx.try_recv(), Err(TryRecvError::Empty));
}

#[test]
fn closed_async_receiver_rejects_recv_future() {
  let (tx, rx) = mpmc::bounded_async::<u32>(2);
  let rx2 = rx.clone();
  tx.try_send(5).unwrap();
  rx.close().unwrap();
  {
    let f = rx.recv();
    let mut f = std::pin::pin!(f);
    assert!(matches!(poll_once(f.as_mut()), std::task::Poll::Ready(Err(_))), "a closed AsyncReceiver took a value through recv()");
  }
  assert_eq!(rx2.try_recv(), Ok(5));
}

#[test]
fn closed_mpsc_receiver_rejects_recv_timeout() {
  let (tx, rx) = fibre::mpsc::bounded::<u32>(2);
  tx.try_send(5).unwrap();
  rx.close().unwrap();
  assert!(rx.recv_timeout(std::time::Duration::from_millis(10)).is_err(), "a closed mpsc Receiver took a value through recv_timeout");
}
