#!/usr/bin/env python3
"""Regenerate /verif/MANIFEST.json from contracts/properties.json (claimed) and contracts/not_applicable.json."""
import json
import os

HERE = os.path.dirname(os.path.dirname(os.path.abspath(__file__)))
cfg = json.load(open(os.path.join(HERE, "contracts", "properties.json")))
na = json.load(open(os.path.join(HERE, "contracts", "not_applicable.json")))
checks = []
for pid in sorted(k for k in cfg if not k.startswith("_")):
  c = cfg[pid]
  checks.append({
    "property_id": pid,
    "quick_cmd": "./check %s --tier quick" % pid,
    "thorough_cmd": "./check %s --tier thorough" % pid,
    "evidence_file": "/verif/evidence/%s.json" % pid,
    "replay_cmd_template": "./check %s --replay {path}" % pid,
    "engine": c.get("engine", "kani-contracts"),
    "level_claimed": {"category": c.get("level", "proof"), "text": c["level_text"], "design_ref": c.get("design_ref", "DESIGN.md section 3")},
    "level_note": c["level_note"],
    "technique": c.get("technique", "contract-based deductive verification (Kani function contracts / step harnesses on the real crate; Verus on extracted functions)"),
  })
m = {
  "version": 1,
  "setup_cmd": "python3 engine/selftest.py",
  "hooks": {
    "guard": "cfg(kani) (set only by cargo-kani; contracts are injected into a scratch copy at check time, /repo carries no hooks)",
    "enable": "./check copies /repo's working tree to $VERIF_SCRATCH (default /var/tmp/fibre-verif.<pid>), appends `#[cfg(kani)] #[path=..] mod verif_k_*;` lines and contract attributes, runs cargo kani / verus there",
    "baseline_off_cmd": "cd /repo && cargo nextest run --workspace --no-fail-fast --test-threads 8 --offline || cargo test --workspace --no-fail-fast --offline",
    "source_commits": [],
    "add_only": True,
  },
  "engines": [
    {"name": "kani-contracts", "path": "engine/kani_engine.py", "serves_properties": [c["property_id"] for c in checks],
     "kind_free_text": "Kani 0.68 function contracts and step/full-domain harnesses over the real crates (CBMC back end); for C14 only in the thorough tier (Clock, SIEVE, LruList)"},
    {"name": "verus-extract", "path": "engine/vextract.py", "serves_properties": sorted(p for p in cfg if not p.startswith("_") and cfg[p].get("uses_verus")),
     "kind_free_text": "Verus 0.2026.09.13 on functions extracted verbatim from /repo on every run (Z3 back end)"},
  ],
  "checks": checks,
  "notes": "See DESIGN.md. Exit 2 = undecidable run (lost anchor, front-end error, vacuity guard), never an alarm.",
  "not_applicable": na,
}
json.dump(m, open(os.path.join(HERE, "MANIFEST.json"), "w"), indent=1)
print("MANIFEST.json: %d checks, %d not applicable" % (len(checks), len(na)))
