"""E-V: Verus on mechanically extracted functions (see vextract.py).  Filled in below."""
import os

from common import VERUS_DIR


def load_units():
  try:
    import vextract
    return vextract.load_units()
  except ImportError:
    return {}


def unit_paths(vunits, vobs):
  return sorted(set(vunits[o.unit].path for o in vobs))


def run(root, vunits, vobs, logdir):
  import vextract
  return vextract.run(root, vunits, vobs, logdir)


def counterexample(root, vunits, o, r, logdir):
  return False, {"verifier_output": r.get("output_tail"), "note": "Verus gives no counterexample"}
