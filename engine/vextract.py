"""E-V: mechanical extraction of functions from /repo + contract splicing + Verus run.

A unit is a python file /verif/contracts/verus/<unit>.py defining UNIT = {...}:

  name, source (path relative to the repo root)
  uses:     list of `use ...;` lines placed before verus!{}
  prelude:  verus text placed first inside verus!{} (spec fns, external_body stand-ins, assume_specification)
  rewrites: list of [regex, replacement, why]: applied to every extracted item, each recorded in the evidence
  items:    list of
     {"kind": "struct", "name": N, "keep": [field names], "add": [extra field lines]}
     {"kind": "const",  "name": N}
     {"kind": "unit_struct", "name": N}   (a field-less `struct N;`)
     {"kind": "fn", "name": N, "impl": "<exact impl header text without `{`>" | None,
      "ret_name": "r", "requires": [...], "ensures": [...], "attrs": [...],
      "splices": [{"after": "<exact trimmed source line>", "insert": [lines]}],       # proof/assert/assume lines
      "loops":   [{"at": "<exact trimmed loop header line>", "clauses": [lines]}],    # invariant/decreases/ensures
      "external_body": bool (keep signature, contract only: body NOT verified, listed as assumption),
      "obligation": {"id":..., "props":[...], "tier": "quick", "bound": "..."} | None}

Items are copied VERBATIM by brace matching; what is dropped or rewritten is exactly: doc comments and
`#[inline]`/`#[cold]` attributes above a fn, struct fields not in `keep`, field visibility -> `pub`,
the listed rewrites.  Anything not found exactly once => Structural (exit 2).
"""
import importlib.util
import json
import os
import re
import subprocess
import time

from common import REPO, VERUS_DIR, Obligation, Structural, log


class VUnit:
  def __init__(self, path):
    self.path = path
    spec = importlib.util.spec_from_file_location("vunit_" + os.path.basename(path)[:-3], path)
    mod = importlib.util.module_from_spec(spec)
    spec.loader.exec_module(mod)
    self.u = mod.UNIT
    self.name = self.u["name"]
    self.rel = "verus/" + os.path.basename(path)
    self.obligations = []
    self.sources = sorted(set([self.u["source"]] + [it["source"] for it in self.u["items"] if it.get("source")]))
    for it in self.u["items"]:
      ob = it.get("obligation")
      if ob:
        self.obligations.append(Obligation(
          id=ob["id"], props=ob["props"], kind="verus", tier=ob.get("tier", "quick"), bound=ob.get("bound", "unbounded"),
          expect="pass", finding=None, engine="verus", unit=self.name, fn=it["name"], proof_line=None, timeout=0))


def load_units():
  units = {}
  if not os.path.isdir(VERUS_DIR):
    return units
  for f in sorted(os.listdir(VERUS_DIR)):
    if f.endswith(".py") and not f.startswith("_"):
      vu = VUnit(os.path.join(VERUS_DIR, f))
      units[vu.name] = vu
  return units


# ---------------------------------------------------------------------------
# extraction
# ---------------------------------------------------------------------------

def _match_brace(text, open_idx):
  """text[open_idx] == '{' -> index of the matching '}' (ignores braces in strings/chars/comments)."""
  depth = 0
  i = open_idx
  n = len(text)
  while i < n:
    c = text[i]
    if c == "/" and text.startswith("//", i):
      j = text.find("\n", i)
      i = n if j < 0 else j
      continue
    if c == "/" and text.startswith("/*", i):
      j = text.find("*/", i + 2)
      i = n if j < 0 else j + 2
      continue
    if c == '"':
      i += 1
      while i < n and text[i] != '"':
        if text[i] == "\\":
          i += 1
        i += 1
      i += 1
      continue
    if c == "'":
      # char literal or lifetime
      m = re.match(r"'(\\.|[^\\'])'", text[i:])
      if m:
        i += m.end()
        continue
    if c == "{":
      depth += 1
    elif c == "}":
      depth -= 1
      if depth == 0:
        return i
    i += 1
  raise Structural("unbalanced braces")


def _impl_ranges(src, header):
  out = []
  for m in re.finditer(r"^" + re.escape(header) + r"(?:\s+where\b[^{]*)?\s*\{", src, re.M):
    o = src.index("{", m.start() + len(header))
    out.append((o, _match_brace(src, o)))
  return out


def extract_fn(src, name, impl_header, where):
  ranges = [(0, len(src))]
  if impl_header:
    ranges = _impl_ranges(src, impl_header)
    if not ranges:
      raise Structural("anchor-lost %s: impl header `%s` not found" % (where, impl_header))
  hits = []
  for (a, b) in ranges:
    for m in re.finditer(r"^[ \t]*((?:pub(?:\([a-z]+\))?\s+)?(?:const\s+)?(?:unsafe\s+)?fn\s+%s\b)" % re.escape(name), src[a:b], re.M):
      hits.append(a + m.start(1))
  if len(hits) != 1:
    raise Structural("anchor-lost %s: fn %s found %d times" % (where, name, len(hits)))
  start = hits[0]
  # signature ends at the first '{' at paren depth 0
  i = start
  depth = 0
  while True:
    c = src[i]
    if c in "(<[":
      depth += 1 if c != "<" else 0
    elif c in ")]":
      depth -= 1
    elif c == "{" and depth == 0:
      break
    i += 1
  body_open = i
  body_close = _match_brace(src, body_open)
  sig = src[start:body_open].rstrip()
  body = src[body_open:body_close + 1]
  line_no = src.count("\n", 0, start) + 1
  return sig, body, line_no


def extract_struct(src, name, where):
  ms = list(re.finditer(r"^[ \t]*(?:pub(?:\([a-z]+\))?\s+)?struct\s+%s\b[^;{]*\{" % re.escape(name), src, re.M))
  if len(ms) != 1:
    raise Structural("anchor-lost %s: struct %s found %d times" % (where, name, len(ms)))
  m = ms[0]
  o = src.index("{", m.start())
  c = _match_brace(src, o)
  head = src[m.start():o].strip()
  return head, src[o + 1:c]


def extract_enum(src, name, where):
  ms = list(re.finditer(r"^[ \t]*(?:pub(?:\([a-z]+\))?\s+)?enum\s+%s\b[^;{]*\{" % re.escape(name), src, re.M))
  if len(ms) != 1:
    raise Structural("anchor-lost %s: enum %s found %d times" % (where, name, len(ms)))
  m = ms[0]
  o = src.index("{", m.start())
  c = _match_brace(src, o)
  return src[m.start():c + 1].strip()


def extract_const(src, name, where):
  ms = list(re.finditer(r"^[ \t]*((?:pub(?:\([a-z]+\))?\s+)?const\s+%s\s*:[^;]*;)" % re.escape(name), src, re.M))
  if len(ms) != 1:
    raise Structural("anchor-lost %s: const %s found %d times" % (where, name, len(ms)))
  return ms[0].group(1)


def _struct_fields(body):
  """Split a struct body into (name, full text) fields, dropping comments and attributes."""
  txt = re.sub(r"//[^\n]*", "", body)
  txt = re.sub(r"#\[[^\]]*\]", "", txt)
  fields = []
  depth = 0
  cur = ""
  for ch in txt:
    if ch in "<([":
      depth += 1
    elif ch in ">)]":
      depth -= 1
    if ch == "," and depth == 0:
      fields.append(cur.strip())
      cur = ""
    else:
      cur += ch
  if cur.strip():
    fields.append(cur.strip())
  out = []
  for f in fields:
    m = re.match(r"(?:pub(?:\([a-z]+\))?\s+)?(\w+)\s*:\s*(.*)$", f, re.S)
    if m:
      out.append((m.group(1), " ".join(m.group(2).split())))
  return out


def generate(vu, repo_root):
  """Returns (text, fn_ranges {fn name: (first line, last line)}, diffs)."""
  u = vu.u
  srcs = {}

  def load_src(rel):
    if rel not in srcs:
      path = os.path.join(repo_root, rel)
      if not os.path.exists(path):
        raise Structural("anchor-lost file %s" % rel)
      srcs[rel] = open(path).read()
    return srcs[rel]

  diffs = []
  out = []
  out.append("// GENERATED by engine/vextract.py from %s -- do not edit" % u["source"])
  out.append("#![allow(unused_imports, dead_code, unused_variables, unused_mut)]")
  out.append("use vstd::prelude::*;")
  out += u.get("uses", [])
  out.append("verus! {")
  out.append(u.get("prelude", ""))
  rewrites = u.get("rewrites", [])

  def rw(text, what):
    for (pat, rep, why) in rewrites:
      new = re.sub(pat, rep, text)
      if new != text:
        diffs.append("%s: rewrite /%s/ -> `%s` (%s)" % (what, pat, rep, why))
      text = new
    return text

  fn_ranges = {}
  # group fns by impl header, preserving order
  groups = []
  for it in u["items"]:
    if it["kind"] == "fn":
      key = it.get("impl")
      if groups and groups[-1][0] == key and key is not None:
        groups[-1][1].append(it)
      else:
        groups.append((key, [it]))
    else:
      groups.append(("__item__", [it]))

  def cur_line():
    return "\n".join(out).count("\n") + 2

  for key, items in groups:
    if key == "__item__":
      it = items[0]
      isrc = it.get("source", u["source"])
      src = load_src(isrc)
      if it["kind"] == "enum":
        txt = extract_enum(src, it["name"], isrc)
        txt = re.sub(r"^pub\(crate\)\s+", "pub ", txt)
        if not txt.startswith("pub "):
          txt = "pub " + txt
        txt = re.sub(r"//[^\n]*", "", txt)
        out.append(rw(txt, "enum " + it["name"]))
        diffs.append("enum %s (%s): copied verbatim (comments and derive attributes dropped)" % (it["name"], isrc))
        continue
      if it["kind"] == "unit_struct":
        ms = re.findall(r"^[ \t]*(?:pub(?:\([a-z]+\))?\s+)?struct\s+%s\s*;" % re.escape(it["name"]), src, re.M)
        if len(ms) != 1:
          raise Structural("anchor-lost %s: unit struct %s found %d times" % (isrc, it["name"], len(ms)))
        out.append("pub struct %s;" % it["name"])
        diffs.append("unit struct %s (%s): copied verbatim (derive attributes dropped)" % (it["name"], isrc))
        continue
      if it["kind"] == "struct":
        head, body = extract_struct(src, it["name"], isrc)
        fields = _struct_fields(body)
        keep = it.get("keep")
        kept = [(n, t) for (n, t) in fields if keep is None or n in keep]
        missing = [k for k in (keep or []) if k not in [n for n, _ in fields]]
        if missing:
          raise Structural("anchor-lost %s: struct %s has no field(s) %s" % (isrc, it["name"], missing))
        dropped = [n for (n, _) in fields if keep is not None and n not in keep]
        head = re.sub(r"^pub(\([a-z]+\))?\s+", "", head)
        out.append("pub " + rw(head, "struct " + it["name"]) + " {")
        for (n, t) in kept:
          out.append("  pub %s: %s," % (n, rw(t, "struct %s field %s" % (it["name"], n))))
        for extra in it.get("add", []):
          out.append("  " + extra)
          diffs.append("struct %s: added field `%s`" % (it["name"], extra))
        out.append("}")
        diffs.append("struct %s: fields made pub; dropped fields: %s" % (it["name"], ", ".join(dropped) or "none"))
      elif it["kind"] == "const":
        out.append(rw(re.sub(r"^pub\(crate\)", "pub", extract_const(src, it["name"], isrc)), "const " + it["name"]))
      continue
    if key is not None:
      impl_as = items[0].get("impl_as")
      if impl_as:
        out.append(impl_as + " {")
        diffs.append("impl header `%s` emitted as `%s` (Verus takes no requires/ensures on trait impls; the bodies are unchanged)" % (key, impl_as))
      else:
        out.append(rw(key, "impl header") + " {")
    for it in items:
      isrc = it.get("source", u["source"])
      src = load_src(isrc)
      sig, body, line_no = extract_fn(src, it["name"], key, isrc)
      sig = re.sub(r"^pub\(crate\)\s+", "pub ", sig)
      sig = re.sub(r"^pub\(super\)\s+", "pub ", sig)
      if not sig.startswith("pub "):
        sig = "pub " + sig
      sig = rw(sig, "fn " + it["name"])
      # named return value
      rn = it.get("ret_name", "r")
      m = re.search(r"->\s*(.+)$", sig, re.S)
      if m:
        sig = sig[:m.start()] + "-> (%s: %s)" % (rn, m.group(1).strip())
      olines = body.split("\n")  # anchors are matched against the ORIGINAL source lines
      body = rw(body, "fn " + it["name"])
      blines = body.split("\n")
      if len(blines) != len(olines):
        raise Structural("rewrite changed the line count of fn %s" % it["name"])
      for sp in it.get("splices", []):
        if sp.get("at_start"):
          # right after the opening brace of the body (for proof blocks that only talk about old(self))
          blines[1:1] = ["    " + x for x in sp["insert"]]
          olines[1:1] = ["" for x in sp["insert"]]
          continue
        if sp.get("at_end") or sp.get("before_tail"):
          # position-based anchors (robust against edits of the statements themselves): `at_end` = after the last
          # statement of a unit-returning body, `before_tail` = before the single-line tail expression
          close = max(k for k, l in enumerate(blines) if l.strip() == "}")
          at = close
          if sp.get("before_tail"):
            k = close - 1
            while k > 0 and (not olines[k].strip() or olines[k].strip().startswith("//")):
              k -= 1
            at = k
          ind = "    "
          blines[at:at] = [ind + x for x in sp["insert"]]
          olines[at:at] = ["" for x in sp["insert"]]
          continue
        anchor = sp.get("after") or sp.get("before")
        idx = [k for k, l in enumerate(olines) if l.strip() == anchor]
        if "nth" in sp and len(idx) == sp.get("of", len(idx)) and sp["nth"] < len(idx):
          idx = [idx[sp["nth"]]]
        if len(idx) != 1:
          raise Structural("anchor-lost %s::%s: line `%s` found %d times" % (isrc, it["name"], anchor, len(idx)))
        ind = blines[idx[0]][: len(blines[idx[0]]) - len(blines[idx[0]].lstrip())]
        at = idx[0] + 1 if sp.get("after") else idx[0]
        blines[at:at] = [ind + x for x in sp["insert"]]
        olines[at:at] = ["" for x in sp["insert"]]
      for lp in it.get("loops", []):
        idx = [k for k, l in enumerate(olines) if l.strip() == lp["at"]]
        if "nth" in lp and len(idx) == lp.get("of", len(idx)) and lp["nth"] < len(idx):
          idx = [idx[lp["nth"]]]
        if len(idx) != 1:
          raise Structural("anchor-lost %s::%s: loop header `%s` found %d times" % (isrc, it["name"], lp["at"], len(idx)))
        k = idx[0]
        l = blines[k]
        if not l.rstrip().endswith("{"):
          raise Structural("loop header `%s` does not end with `{`" % lp["at"])
        ind = l[: len(l) - len(l.lstrip())]
        blines[k] = l.rstrip()[:-1].rstrip()
        blines[k + 1:k + 1] = [ind + "  " + c for c in lp["clauses"]] + [ind + "{"]
        olines[k + 1:k + 1] = ["" for c in lp["clauses"]] + [""]
      first = cur_line()
      for a in it.get("attrs", []):
        out.append("  " + a)
      if it.get("external_body"):
        out.append("  #[verifier::external_body]")
        diffs.append("fn %s: signature copied, body replaced by unimplemented!() and NOT verified (external_body): its contract is ASSUMED" % it["name"])
      out.append("  " + sig)
      if it.get("requires"):
        out.append("    requires")
        out += ["      %s," % r for r in it["requires"]]
      if it.get("ensures"):
        out.append("    ensures")
        out += ["      %s," % e for e in it["ensures"]]
      if it.get("decreases"):
        out.append("    decreases %s," % it["decreases"])
      if it.get("external_body"):
        out.append("  { unimplemented!() }")
      else:
        out += ["  " + l for l in blines]
      fn_ranges[it["name"]] = (first, cur_line() - 1)
      diffs.append("fn %s (%s:%d): copied verbatim; +%d requires, +%d ensures, %d spliced proof line(s), %d loop contract(s)" % (
        it["name"], isrc, line_no, len(it.get("requires", [])), len(it.get("ensures", [])),
        sum(len(s["insert"]) for s in it.get("splices", [])), len(it.get("loops", []))))
      # vacuity control: the same function with `ensures false` must be REJECTED
      if it.get("obligation") and not it.get("external_body"):
        cfirst = cur_line()
        csig = re.sub(r"\bfn\s+%s\b" % re.escape(it["name"]), "fn %s__control" % it["name"], sig, count=1)
        for a in it.get("attrs", []):
          out.append("  " + a)
        out.append("  " + csig)
        if it.get("requires"):
          out.append("    requires")
          out += ["      %s," % r for r in it["requires"]]
        out.append("    ensures false,")
        cb = "\n".join(blines)
        out += ["  " + l for l in cb.split("\n")]
        fn_ranges[it["name"] + "__control"] = (cfirst, cur_line() - 1)
    if key is not None:
      out.append("}")
  out.append("} // verus!")
  out.append("fn main() {}")
  return "\n".join(out) + "\n", fn_ranges, diffs


def run_unit(vu, repo_root, gendir, logdir):
  text, fn_ranges, diffs = generate(vu, repo_root)
  os.makedirs(gendir, exist_ok=True)
  path = os.path.join(gendir, vu.name + ".rs")
  open(path, "w").write(text)
  # keep a copy of the generated text for the reader
  t0 = time.time()
  cmd = ["verus", path, "--output-json", "--time", "--multiple-errors", "50", "--triggers-mode", "silent"] + vu.u.get("verus_flags", [])
  try:
    p = subprocess.run(cmd, stdout=subprocess.PIPE, stderr=subprocess.PIPE, text=True, timeout=900, cwd=gendir)
  except subprocess.TimeoutExpired:
    return None, {"error": "verus timed out"}, diffs, " ".join(cmd), path
  wall = time.time() - t0
  open(os.path.join(logdir, "verus-%s.out.json" % vu.name), "w").write(p.stdout)
  open(os.path.join(logdir, "verus-%s.err.txt" % vu.name), "w").write(p.stderr)
  open(os.path.join(logdir, "verus-%s.rs" % vu.name), "w").write(text)
  try:
    js = json.loads(p.stdout)
  except ValueError:
    js = {}
  vr = js.get("verification-results", {})
  if vr.get("encountered-vir-error") or "verified" not in vr or re.search(r"^error\[E\d+\]", p.stderr, re.M):
    errs = "\n".join(l for l in p.stderr.split("\n") if l.startswith("error") or "-->" in l)[:1500]
    raise Structural("verus front-end error in unit %s (unsupported construct / type error, not a verification result):\n%s" % (vu.name, errs))
  # map diagnostics to functions by line
  failed = {}
  blocks = re.split(r"\n(?=error)", p.stderr)
  for b in blocks:
    if not b.startswith("error"):
      continue
    first = b.split("\n")[0]
    if first.startswith("error: aborting"):
      continue
    locs = [int(x) for x in re.findall(r"-->\s*[^\n:]+:(\d+):\d+", b)]
    locs += [int(x) for x in re.findall(r"^\s*(\d+) \|", b, re.M)]
    hit = None
    for ln in locs:
      for fn, (a, z) in fn_ranges.items():
        if a <= ln <= z:
          hit = fn
          break
      if hit:
        break
    desc = first[len("error: "):] if first.startswith("error: ") else first
    # name the failing clause: the first quoted source line of the diagnostic
    mcl = re.search(r"^\s*\d+ \|\s*(.*?)\s*$", b, re.M)
    if mcl and mcl.group(1):
      desc += ": " + mcl.group(1).rstrip(",")
    failed.setdefault(hit or "?", []).append({"description": desc,
                                               "location": "%s.rs:%s" % (vu.name, locs[0] if locs else "?"),
                                               "detail": b[:1200]})
  info = {"verified": vr.get("verified"), "errors": vr.get("errors"), "wall_s": round(wall, 2),
          "smt_ms": js.get("times-ms", {}).get("smt", {}).get("total") if isinstance(js.get("times-ms", {}).get("smt"), dict) else None,
          "total_ms": js.get("times-ms", {}).get("total")}
  return failed, info, diffs, " ".join(cmd), path


def run(root, vunits, vobs, logdir):
  results = {}
  diffs = []
  cmds = []
  by_unit = {}
  for o in vobs:
    by_unit.setdefault(o.unit, []).append(o)
  gendir = os.path.join(root, "gen")
  for un, obs in sorted(by_unit.items()):
    vu = vunits[un]
    log("verus: unit", un, "(%d obligations)" % len(obs))
    failed, info, d, cmd, path = run_unit(vu, os.path.join(root, "repo"), gendir, logdir)
    diffs += ["verus unit %s: %s" % (un, x) for x in d]
    cmds.append(cmd.replace(gendir, "<scratch>/gen"))
    if failed is None:
      for o in obs:
        results[o.id] = {"status": "undecided", "reason": "resource: " + info.get("error", "?"), "harness": "%s::%s" % (un, o.fn)}
      continue
    if "?" in failed:
      raise Structural("verus reported an error outside any extracted function in unit %s: %s" % (un, failed["?"][0]["detail"][:400]))
    per = (info.get("total_ms") or 0) / 1000.0 / max(1, len(obs))
    for o in obs:
      r = {"harness": "%s::%s" % (un, o.fn), "time_s": round(per, 2), "checks": info.get("verified"), "log": os.path.join(logdir, "verus-%s.err.txt" % un)}
      ctl = o.fn + "__control"
      if o.fn in failed:
        r["status"] = "failed"
        r["failed_checks"] = [{"category": "verus", "description": f["description"], "location": f["location"]} for f in failed[o.fn]]
        r["output_tail"] = "\n\n".join(f["detail"] for f in failed[o.fn])[:4000]
      elif ctl not in failed:
        r["status"] = "vacuous"
        r["reason"] = "control `%s` with `ensures false` was ACCEPTED: preconditions/assumptions are contradictory" % ctl
      else:
        r["status"] = "discharged"
      results[o.id] = r
  return results, diffs, cmds
