#!/usr/bin/env python3
"""setup_cmd: nothing to build (stdlib python + pre-installed verifiers); verify the tools answer."""
import os, shutil, subprocess, sys
HERE = os.path.dirname(os.path.dirname(os.path.abspath(__file__)))
sys.path.insert(0, os.path.join(HERE, "engine"))
import common
ok = True
for tool in ("cargo-kani", "verus", "cbmc", "rsync"):
  if shutil.which(tool) is None:
    print("missing tool:", tool); ok = False
units = common.load_units()
n = sum(len(u.obligations) for u in units.values())
print("units: %d, kani obligations: %d" % (len(units), n))
for d in ("evidence", "replays", "logs"):
  os.makedirs(os.path.join(HERE, d), exist_ok=True)
sys.exit(0 if ok else 1)
