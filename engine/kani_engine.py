"""E-K: run Kani harnesses injected into a scratch copy of /repo."""
import os
import re
import signal
import subprocess
import threading
import time

from common import CRATE_DIRS, Structural, log

KANI_FLAGS = ["-Z", "function-contracts", "-Z", "stubbing", "-Z", "unstable-options"]

# failed-check descriptions that mean "the verifier could not decide", not "the code is wrong"
UNDECIDED_PATTERNS = [
  r"unwinding assertion",
  r"is not currently supported by Kani",
  r"not supported",
  r"Kani does not support",
  r"call to foreign",
  r"reachable unsupported",
  r"deque stand-in capacity exceeded",
]


def _env():
  e = dict(os.environ)
  e["CARGO_NET_OFFLINE"] = "true"
  e.pop("RUSTFLAGS", None)
  return e


class MemWatch(threading.Thread):
  """Kill any cbmc descendant whose RSS exceeds the cap (sandbox has no swap)."""

  def __init__(self, root_pid, cap_gb):
    super().__init__(daemon=True)
    self.root_pid = root_pid
    self.cap_kb = int(cap_gb * 1024 * 1024)
    self.stop = False
    self.killed = []
    self.peak = {}  # harness fn name -> peak RSS kB

  def run(self):
    while not self.stop:
      try:
        self._scan()
      except Exception:
        pass
      time.sleep(2)

  def _scan(self):
    # collect descendants of root_pid
    ppid = {}
    rss = {}
    name = {}
    for d in os.listdir("/proc"):
      if not d.isdigit():
        continue
      try:
        st = open("/proc/%s/status" % d).read()
      except OSError:
        continue
      m = re.search(r"^PPid:\s+(\d+)", st, re.M)
      n = re.search(r"^Name:\s+(\S+)", st, re.M)
      r = re.search(r"^VmRSS:\s+(\d+)", st, re.M)
      if m and n:
        ppid[int(d)] = int(m.group(1))
        name[int(d)] = n.group(1)
        rss[int(d)] = int(r.group(1)) if r else 0
    for p in list(ppid):
      if name.get(p) not in ("cbmc", "goto-instrument", "goto-cc"):
        continue
      q = p
      ok = False
      for _ in range(64):
        if q == self.root_pid:
          ok = True
          break
        q = ppid.get(q)
        if q is None:
          break
      if ok and name.get(p) == "cbmc":
        try:
          cl = open("/proc/%d/cmdline" % p).read()
          m = re.search(r"(ob_\w+?)\.", cl.replace("\0", " ") + ".")
          mm = re.findall(r"\d+(ob_\w+)", cl)
          key = mm[-1].split(".")[0] if mm else (m.group(1) if m else str(p))
          self.peak[key] = max(self.peak.get(key, 0), rss[p])
        except OSError:
          pass
      if ok and rss[p] > self.cap_kb:
        try:
          os.kill(p, signal.SIGKILL)
          self.killed.append((p, rss[p]))
          log("memwatch: killed %s pid %d rss %.1f GB" % (name[p], p, rss[p] / 1048576.0))
        except OSError:
          pass


def run_crate(root, crate, items, jobs, timeout_s, mem_gb, logdir, extra_flags=None):
  """items: list of (obligation, fq_harness_name).  Returns dict id -> result dict."""
  results = {}
  if not items:
    return results, 0.0, ""
  repo = os.path.join(root, "repo")
  cmd = ["cargo", "kani", "-p", crate] + KANI_FLAGS
  for ob, fq in items:
    cmd += ["--harness", fq]
  cmd += ["--exact", "-j", str(jobs), "--output-format", "terse", "--harness-timeout", "%ds" % timeout_s]
  jsonpath = os.path.join(logdir, "kani-%s.json" % crate)
  try:
    os.remove(jsonpath)
  except OSError:
    pass
  cmd += ["--export-json", jsonpath]
  if extra_flags:
    cmd += extra_flags
  log("kani:", crate, "%d harnesses, -j %d, timeout %ds" % (len(items), jobs, timeout_s))
  t0 = time.time()
  os.makedirs(logdir, exist_ok=True)
  logpath = os.path.join(logdir, "kani-%s.log" % crate)
  with open(logpath, "w") as lf:
    p = subprocess.Popen(cmd, cwd=repo, env=_env(), stdout=lf, stderr=subprocess.STDOUT, start_new_session=True)
    mw = MemWatch(p.pid, mem_gb)
    mw.start()
    try:
      # global guard: build + all harnesses
      p.wait(timeout=300 + timeout_s * (1 + len(items) // max(1, jobs)))
    except subprocess.TimeoutExpired:
      try:
        os.killpg(p.pid, signal.SIGKILL)
      except OSError:
        pass
      p.wait()
    mw.stop = True
  wall = time.time() - t0
  out = open(logpath, errors="replace").read()
  by_fq = {fq: ob for ob, fq in items}
  parsed = parse_terse(out)
  merge_json(parsed, jsonpath)
  compile_failed = ("error: could not compile" in out) or ("error[E" in out) or (
    not parsed and "Checking harness" not in out
  )
  if compile_failed:
    tail = "\n".join([l for l in out.split("\n") if l.startswith("error") or "-->" in l][:40])
    raise Structural("kani build of %s failed (front-end error, not a verification result):\n%s\nlog: %s" % (crate, tail, logpath))
  for fq, ob in by_fq.items():
    r = parsed.get(fq)
    if r is None:
      r = {"status": "undecided", "reason": "no result reported (killed / crashed / timed out)", "time_s": None}
    r["harness"] = fq
    pk = [v for k, v in mw.peak.items() if k.startswith(ob.fn) and (k == ob.fn or not k[len(ob.fn):][:1].isalnum() and k[len(ob.fn):][:1] != "_")]
    r["peak_rss_gb"] = round(max(pk) / 1048576.0, 2) if pk else None
    r["log"] = logpath
    results[ob.id] = r
  return results, wall, " ".join(cmd)


UNDECIDED_CATEGORIES = ("unwind", "unsupported_construct")


def merge_json(parsed, jsonpath):
  """Add per-check detail (cover identities, failed-check categories) from --export-json."""
  import json
  try:
    d = json.load(open(jsonpath))
  except (OSError, ValueError):
    return
  for res in d.get("verification_results", {}).get("results", []):
    h = res.get("harness_id")
    r = parsed.get(h)
    if r is None:
      continue
    covers = []
    failed = []
    for c in res.get("checks", []):
      loc = c.get("location", {})
      where = "%s:%s" % (os.path.basename(loc.get("file", "?")).replace("fibre__", "").replace("fibre_cache__", "").replace("fibre_logging__", ""), loc.get("line", "?"))
      if c.get("category") == "cover":
        covers.append({"where": where, "description": c.get("description"), "status": c.get("status")})
      elif c.get("status") in ("Failure", "Failed", "Undetermined"):
        failed.append({"category": c.get("category"), "description": c.get("description"), "location": where + " in " + str(c.get("function"))})
    r["cover_detail"] = covers
    if failed:
      r["failed_checks"] = failed
      if r.get("status") == "failed" and any(f["category"] in UNDECIDED_CATEGORIES for f in failed):
        r["status"] = "undecided"
        r["reason"] = "verifier limit: " + "; ".join("%s (%s)" % (f["description"], f["category"]) for f in failed if f["category"] in UNDECIDED_CATEGORIES)[:300]
    # vacuity, per harness: the END cover(s) must be reached
    if r.get("status") in ("discharged", "vacuous") and covers:
      ends = [c for c in covers if c["description"] == "END"]
      if not ends:
        r["status"] = "vacuous"
        r["reason"] = "harness has no END cover"
      elif not any(c["status"] == "Satisfied" for c in ends):
        r["status"] = "vacuous"
        r["reason"] = "END cover not reachable (harness is vacuous): " + ends[0]["where"]
      else:
        r["status"] = "discharged"
        r.pop("reason", None)


def group_cover_gaps(results):
  """Branch covers may be unreachable for one instance of a step (e.g. a fixed shape) but every cover
  location must be reached by at least one harness of the run.  Returns the list of unreached locations."""
  seen = {}
  for oid, r in results.items():
    for c in r.get("cover_detail") or []:
      k = (c["where"], c["description"])
      seen[k] = seen.get(k, False) or c["status"] == "Satisfied"
  return sorted("%s `%s`" % k for k, v in seen.items() if not v)


def parse_terse(out):
  """Parse `--output-format terse` with -j: returns fq -> result."""
  res = {}
  thread_harness = {}
  cur_thread = None
  block = []
  blocks = []  # (harness, lines)
  for line in out.split("\n"):
    m = re.match(r"^(?:Thread (\d+): )?Checking harness (\S+?)\.\.\.", line)
    if m:
      th = m.group(1) or "0"
      thread_harness[th] = m.group(2)
      if m.group(1) is None:
        # sequential mode: the result block follows directly
        if cur_thread is not None:
          blocks.append((thread_harness.get(cur_thread), block))
        cur_thread, block = th, []
      continue
    m = re.match(r"^Thread (\d+):\s*$", line)
    if m:
      if cur_thread is not None:
        blocks.append((thread_harness.get(cur_thread), block))
      cur_thread, block = m.group(1), []
      continue
    if cur_thread is not None:
      block.append(line)
      if line.startswith("Verification Time:") or line.startswith("CBMC timed out") or "timed out" in line:
        blocks.append((thread_harness.get(cur_thread), block))
        cur_thread, block = None, []
  if cur_thread is not None:
    blocks.append((thread_harness.get(cur_thread), block))
  for h, lines in blocks:
    if h is None:
      continue
    txt = "\n".join(lines)
    r = {"time_s": None, "failed_checks": [], "checks": None, "covers": None}
    m = re.search(r"Verification Time: ([0-9.]+)s", txt)
    if m:
      r["time_s"] = float(m.group(1))
    m = re.search(r"\*\* (\d+) of (\d+) failed", txt)
    if m:
      r["checks"] = int(m.group(2))
      r["n_failed"] = int(m.group(1))
    m = re.search(r"\*\* (\d+) of (\d+) cover properties satisfied", txt)
    if m:
      r["covers"] = [int(m.group(1)), int(m.group(2))]
    fc = []
    L = lines
    for k, l in enumerate(L):
      if l.startswith("Failed Checks:"):
        desc = l[len("Failed Checks:"):].strip()
        loc = L[k + 1].strip() if k + 1 < len(L) and L[k + 1].strip().startswith("File:") else ""
        fc.append({"description": desc, "location": loc})
    r["failed_checks"] = fc
    if "VERIFICATION:- SUCCESSFUL" in txt:
      if r["covers"] and r["covers"][0] != r["covers"][1]:
        r["status"] = "vacuous"
        r["reason"] = "cover not satisfied: %d of %d" % tuple(r["covers"])
      else:
        r["status"] = "discharged"
    elif "VERIFICATION:- FAILED" in txt:
      und = [c for c in fc if any(re.search(p, c["description"]) for p in UNDECIDED_PATTERNS)]
      if "timed out" in txt or "CBMC failed" in txt or "out of memory" in txt.lower():
        r["status"] = "undecided"
        r["reason"] = "resource: " + (re.search(r"(CBMC[^\n]*|[^\n]*timed out[^\n]*)", txt).group(1) if re.search(r"(CBMC[^\n]*|[^\n]*timed out[^\n]*)", txt) else "cbmc aborted")
      elif und:
        r["status"] = "undecided"
        r["reason"] = "verifier limit: " + und[0]["description"]
      elif fc:
        r["status"] = "failed"
      else:
        r["status"] = "undecided"
        r["reason"] = "FAILED without a failed check (tool error)"
    else:
      r["status"] = "undecided"
      r["reason"] = "resource: " + (txt.strip().split("\n")[-1] if txt.strip() else "no verdict")
    res[h] = r
  return res


def concrete_playback_many(root, crate, fqs, timeout_s, logdir, jobs=3):
  """Re-run failing harnesses with concrete playback (one process each: the option is incompatible
  with -j); returns fq -> test code, and a log tail."""
  from concurrent.futures import ThreadPoolExecutor
  repo = os.path.join(root, "repo")

  def one(fq):
    cmd = ["cargo", "kani", "-p", crate] + KANI_FLAGS + [
      "-Z", "concrete-playback", "--concrete-playback=print", "--harness", fq, "--exact", "--output-format", "terse"]
    logpath = os.path.join(logdir, "playback-gen-%s.log" % fq.split("::")[-1])
    with open(logpath, "w") as lf:
      p = subprocess.Popen(cmd, cwd=repo, env=_env(), stdout=lf, stderr=subprocess.STDOUT, start_new_session=True)
      try:
        p.wait(timeout=timeout_s)
      except subprocess.TimeoutExpired:
        os.killpg(p.pid, signal.SIGKILL)
        p.wait()
    out = open(logpath, errors="replace").read()
    m = re.search(r"(/// Test generated for harness.*?\n}\n)", out, re.S)
    return fq, (m.group(1) if m else None), out[-2000:]

  codes = {}
  tails = []
  with ThreadPoolExecutor(max_workers=jobs) as ex:
    for fq, code, tail in ex.map(one, fqs):
      if code:
        codes[fq] = code
      else:
        tails.append(tail)
  return codes, "\n".join(tails)[-3000:]


def run_playback_tests(root, crate, appended, timeout_s, logdir):
  """appended: list of (unit_copy_path, test_code).  Executes the generated #[test]s natively against
  the scratch copy of the real crate.  Returns test-name -> failed(bool), output tail."""
  names = []
  for upath, code in appended:
    m = re.search(r"fn (kani_concrete_playback_\w+)", code)
    if not m:
      continue
    names.append(m.group(1))
    with open(upath, "a") as f:
      f.write("\n" + code + "\n")
  if not names:
    return {}, "no test generated"
  repo = os.path.join(root, "repo")
  cmd = ["cargo", "kani", "playback", "-Z", "concrete-playback", "-p", crate, "--", "kani_concrete_playback_"]
  logpath = os.path.join(logdir, "playback-run-%s.log" % crate)
  with open(logpath, "w") as lf:
    p = subprocess.Popen(cmd, cwd=repo, env=_env(), stdout=lf, stderr=subprocess.STDOUT, start_new_session=True)
    try:
      p.wait(timeout=timeout_s)
    except subprocess.TimeoutExpired:
      os.killpg(p.pid, signal.SIGKILL)
      p.wait()
      return {}, "native playback timed out"
  out = open(logpath, errors="replace").read()
  res = {}
  blocks = {}
  for n in names:
    m = re.search(r"test \S*%s \.\.\. (\w+)" % re.escape(n), out)
    if m:
      failed = (m.group(1) == "FAILED")
      # a test that runs PAST the recorded failure point exhausts the recorded inputs and panics inside
      # kani's playback library: that is "the original failure did not occur", not a failure
      b = re.search(r"---- \S*%s stdout ----(.*?)(?=\n---- |\nfailures:)" % re.escape(n), out, re.S)
      if failed and b and "Not enough det vals found" in b.group(1):
        failed = False
      res[n] = failed
      blocks[n] = b.group(1) if b else ""
  res["_blocks"] = blocks
  return res, out[-4000:]
