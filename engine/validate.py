#!/usr/bin/env python3-vt
import json, sys, glob, jsonschema
jsonschema.validate(json.load(open('/verif/MANIFEST.json')), json.load(open('/root/.vp/MANIFEST.schema.json')))
print('manifest valid')
s = json.load(open('/root/.vp/EVIDENCE.schema.json'))
for f in sorted(glob.glob('/verif/evidence/*.json')):
  jsonschema.validate(json.load(open(f)), s); print(f, 'valid')
