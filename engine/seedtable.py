#!/usr/bin/env python3
"""Regenerate the seeded-change table of DESIGN.md (between the SEEDTABLE markers) from /verif/seeded/*/meta.json and
the seedrun outputs recorded in /verif/seeded/<id>/run.json."""
import json, os, re, glob
rows = []
for d in sorted(glob.glob('/verif/seeded/*')):
  sid = os.path.basename(d)
  meta = json.load(open(os.path.join(d, 'meta.json')))
  runp = os.path.join(d, 'run.json')
  run = json.load(open(runp)) if os.path.exists(runp) else None
  files = ', '.join(os.path.basename(f) for f in meta.get('files', []))
  clause = (meta.get('clause') or '')[:110].replace('|', '/').replace('\n', ' ')
  needs = (meta.get('needs') or '')[:120].replace('|', '/').replace('\n', ' ')
  if run is None:
    res = 'not run'
  elif run.get('detected'):
    res = '**caught** by ' + ', '.join('`%s`' % v for v in run['violations'][:3])
  else:
    exits = [r['exit'] for r in run.get('runs', [])]
    res = 'missed (exit %s)' % exits
  rows.append('| %s | %s | %s | %s | %s |' % (sid, files, clause, needs, res))
caught = sum(1 for r in rows if '**caught**' in r)
table = ('\n\n| seed | file(s) | clause broken | needs | result of the registered quick check |\n|---|---|---|---|---|\n' + '\n'.join(rows) +
         '\n\n%d of %d kept seeded changes are caught.  Why the others are missed is said per seed in A.8.\n' % (caught, len(rows)))
p = '/verif/DESIGN.md'
s = open(p).read()
if 'SEEDTABLE' in s and '<!-- SEEDTABLE-BEGIN -->' not in s:
  s = s.replace('SEEDTABLE', '<!-- SEEDTABLE-BEGIN -->' + table + '<!-- SEEDTABLE-END -->')
else:
  s = re.sub(r'<!-- SEEDTABLE-BEGIN -->.*?<!-- SEEDTABLE-END -->', lambda m: '<!-- SEEDTABLE-BEGIN -->' + table + '<!-- SEEDTABLE-END -->', s, flags=re.S)
open(p, 'w').write(s)
print(caught, len(rows))
