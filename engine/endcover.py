#!/usr/bin/env python3
"""Dev helper: mark the last statement `kani::cover!(true);` of every step_/ob_ function as the END cover."""
import glob, re, sys
for f in sys.argv[1:] or glob.glob('/verif/contracts/kani/*/*.rs'):
  L = open(f).read().split('\n')
  n = 0
  i = 0
  while i < len(L):
    m = re.match(r'^(\s*)(?:pub\(crate\) )?fn (step_\w+|ob_\w+)\b.*\{\s*$', L[i])
    if m:
      ind = m.group(1)
      j = i + 1
      while j < len(L) and L[j] != ind + '}':
        j += 1
      k = j - 1
      while k > i and not L[k].strip():
        k -= 1
      if L[k].strip() == 'kani::cover!(true);':
        L[k] = L[k].replace('kani::cover!(true);', 'kani::cover!(true, "END");')
        n += 1
      i = j
    i += 1
  open(f, 'w').write('\n'.join(L))
  print(f, n)
