"""Shared machinery: scratch copy of /repo, unit registry, evidence writer.

stdlib only.  See /verif/DESIGN.md section 1.
"""
import json
import os
import re
import shutil
import subprocess
import sys
import time

VERIF = os.path.dirname(os.path.dirname(os.path.abspath(__file__)))
REPO = os.environ.get("VERIF_REPO", "/repo")
KANI_DIR = os.path.join(VERIF, "contracts", "kani")
VERUS_DIR = os.path.join(VERIF, "contracts", "verus")

CRATE_DIRS = {"fibre": "channels", "fibre_cache": "cache", "fibre_logging": "logging", "fibre_ioc": "ioc"}


class Structural(Exception):
  """Something that makes the run undecidable (exit 2), never a violation."""


def log(*a):
  print(*a, file=sys.stderr, flush=True)


def scratch_root():
  base = os.environ.get("VERIF_SCRATCH")
  if base:
    return base
  return "/var/tmp/fibre-verif.%d" % os.getpid()


def make_scratch():
  """Copy the *current working tree* of /repo (no target/, no .git) to a fresh dir."""
  root = scratch_root()
  if os.path.exists(root):
    shutil.rmtree(root, ignore_errors=True)
  os.makedirs(root)
  dst = os.path.join(root, "repo")
  subprocess.check_call(
    ["rsync", "-a", "--exclude", "/target", "--exclude", ".git", REPO.rstrip("/") + "/", dst + "/"]
  )
  os.makedirs(os.path.join(root, "units"))
  return root


def remove_scratch(root):
  if os.environ.get("VERIF_KEEP"):
    log("keeping scratch", root)
    return
  shutil.rmtree(root, ignore_errors=True)


def repo_head():
  try:
    h = subprocess.check_output(["git", "-C", REPO, "rev-parse", "--short", "HEAD"], text=True).strip()
    dirty = subprocess.check_output(["git", "-C", REPO, "status", "--porcelain"], text=True).strip()
    return h + ("+dirty" if dirty else "")
  except Exception:
    return "unknown"


# ---------------------------------------------------------------------------
# Unit files: /verif/contracts/kani/<crate>/<unit>.rs
#
#   // @unit crate=fibre file=channels/src/internal/unsynchronized_ring.rs
#   // @needs fibre/other.rs                      (inject that unit as well)
#   // @attr [file=<path>] anchor="<exact trimmed source line>"
#   // @attr+ #[cfg_attr(kani, kani::requires(..))]    (lines inserted above the anchor)
#   // @swap [file=<path>] from="<exact trimmed line>" to="<replacement line(s)>"
#   // @obligation id=<id> props=C01,C02 kind=step|full|hist|control tier=quick|thorough bound="..."
#   #[kani::proof] ...
#   fn ob_xxx() {..}
# ---------------------------------------------------------------------------

TAG_RE = re.compile(r'(\w+)=("([^"]*)"|\S+)')


def parse_tags(s):
  out = {}
  for m in TAG_RE.finditer(s):
    out[m.group(1)] = m.group(3) if m.group(3) is not None else m.group(2)
  return out


class Obligation:
  def __init__(self, **kw):
    self.__dict__.update(kw)

  def as_dict(self):
    return dict(self.__dict__)


class Unit:
  def __init__(self, relpath):
    self.rel = relpath  # e.g. fibre/uring.rs
    self.path = os.path.join(KANI_DIR, relpath)
    self.crate = None
    self.file = None
    self.needs = []
    self.attrs = []  # (file, anchor, [lines])
    self.swaps = []  # (file, from, to)
    self.crateattrs = []  # inner attributes prepended to the file (crate root only)
    self.obligations = []
    self.lines = open(self.path).read().split("\n")
    self._parse()

  def _parse(self):
    cur_attr = None
    i = 0
    L = self.lines
    while i < len(L):
      ln = L[i].strip()
      if ln.startswith("// @unit "):
        t = parse_tags(ln)
        self.crate, self.file = t["crate"], t["file"]
      elif ln.startswith("// @needs "):
        self.needs.append(ln.split()[2])
      elif ln.startswith("// @attr+ "):
        if cur_attr is None:
          raise Structural("unit %s line %d: @attr+ without @attr" % (self.rel, i + 1))
        cur_attr[2].append(L[i].strip()[len("// @attr+ "):])
      elif ln.startswith("// @attr "):
        t = parse_tags(ln)
        cur_attr = (t.get("file"), t["anchor"], [])
        self.attrs.append(cur_attr)
      elif ln.startswith("// @crateattr "):
        self.crateattrs.append(L[i].strip()[len("// @crateattr "):])
      elif ln.startswith("// @swap "):
        t = parse_tags(ln)
        self.swaps.append((t.get("file"), t["from"], t["to"]))
      elif ln.startswith("// @obligation "):
        t = parse_tags(ln)
        # find the fn name and the proof attribute line below
        j = i + 1
        proof_line = None
        fn = None
        while j < len(L) and j < i + 24:
          s = L[j].strip()
          if s.startswith("#[kani::proof"):
            proof_line = j
          m = re.match(r"(pub(\(crate\))? )?fn (\w+)\s*\(", s)
          if m:
            fn = m.group(3)
            break
          j += 1
        if fn is None or proof_line is None:
          raise Structural("unit %s line %d: @obligation without harness" % (self.rel, i + 1))
        self.obligations.append(
          Obligation(
            id=t["id"],
            props=t["props"].split(","),
            kind=t.get("kind", "step"),
            tier=t.get("tier", "quick"),
            bound=t.get("bound", ""),
            expect=t.get("expect", "pass"),
            finding=t.get("finding"),
            engine="kani",
            unit=self.rel,
            fn=fn,
            proof_line=proof_line,
            timeout=int(t.get("timeout", "0")),
          )
        )
      i += 1
    if self.crate is None:
      raise Structural("unit %s has no @unit header" % self.rel)

  def module_path(self):
    """Rust module path of the source file this unit is injected into."""
    rel = self.file
    cdir = CRATE_DIRS[self.crate] + "/src/"
    assert rel.startswith(cdir), rel
    p = rel[len(cdir):]
    p = p[:-3]  # .rs
    parts = p.split("/")
    if parts[-1] in ("mod", "lib"):
      parts = parts[:-1]
    return "::".join(parts)

  def harness_fq(self, ob):
    mp = self.module_path()
    return (mp + "::" if mp else "") + self.modname() + "::" + ob.fn

  def modname(self):
    return "verif_k_" + os.path.basename(self.rel)[:-3]


def load_units():
  units = {}
  for crate in sorted(os.listdir(KANI_DIR)):
    d = os.path.join(KANI_DIR, crate)
    if not os.path.isdir(d):
      continue
    for f in sorted(os.listdir(d)):
      if f.endswith(".rs") and not f.startswith("_"):
        rel = crate + "/" + f
        txt = open(os.path.join(d, f)).read()
        if "// @unit " not in txt:
          continue  # helper file (e.g. shim), not a unit
        units[rel] = Unit(rel)
  return units


def _find_unique(lines, anchor, what):
  idx = [k for k, l in enumerate(lines) if l.strip() == anchor]
  if len(idx) != 1:
    raise Structural("anchor-lost %s: %r found %d times" % (what, anchor, len(idx)))
  return idx[0]


def inject(root, units, selected_units, selected_fns):
  """Add-only injection into the scratch copy.  Returns a list of diff descriptions."""
  diffs = []
  todo = []
  seen = set()

  def visit(rel):
    if rel in seen:
      return
    seen.add(rel)
    if rel not in units:
      raise Structural("unit %s needed but missing" % rel)
    for n in units[rel].needs:
      visit(n)
    todo.append(rel)

  for rel in selected_units:
    visit(rel)

  edits = {}  # file -> list of lines

  def get(file):
    if file not in edits:
      p = os.path.join(root, "repo", file)
      if not os.path.exists(p):
        raise Structural("anchor-lost file %s" % file)
      edits[file] = open(p).read().split("\n")
    return edits[file]

  for rel in todo:
    u = units[rel]
    # copy of the unit with unselected harnesses disabled
    out = list(u.lines)
    for ob in u.obligations:
      if ob.fn not in selected_fns:
        k = ob.proof_line
        out[k] = "// (not selected) " + out[k]
        # also disable further kani attrs between proof line and fn
        j = k + 1
        while j < len(out) and out[j].strip().startswith("#[kani::"):
          out[j] = "// (not selected) " + out[j]
          j += 1
        out.insert(j, "#[allow(dead_code)]") if False else None
    upath = os.path.join(root, "units", rel.replace("/", "__"))
    open(upath, "w").write("\n".join(out))
    lines = get(u.file)
    lines.append('#[cfg(kani)] #[path = "%s"] pub(crate) mod %s;' % (upath, u.modname()))
    diffs.append("%s: +1 line (mod %s -> %s)" % (u.file, u.modname(), rel))
    for ca in u.crateattrs:
      lines.insert(0, ca)
      diffs.append("%s: +1 crate attribute line `%s`" % (u.file, ca))
    for (file, anchor, ins) in u.attrs:
      f = file or u.file
      lines = get(f)
      k = _find_unique(lines, anchor, f)
      indent = lines[k][: len(lines[k]) - len(lines[k].lstrip())]
      for x in reversed(ins):
        lines.insert(k, indent + x)
      diffs.append("%s: +%d attribute line(s) above `%s`" % (f, len(ins), anchor))
    for (file, frm, to) in u.swaps:
      f = file or u.file
      lines = get(f)
      if any(l.strip() == to.strip() for l in lines) and not any(l.strip() == frm for l in lines):
        continue  # the same swap was already applied by another unit of this run
      k = _find_unique(lines, frm, f)
      lines[k] = to
      diffs.append("%s: line `%s` -> `%s`" % (f, frm, to))
  for file, lines in edits.items():
    open(os.path.join(root, "repo", file), "w").write("\n".join(lines))
  return diffs


# ---------------------------------------------------------------------------
# assumption scan
# ---------------------------------------------------------------------------

ASSUME_PATTERNS = [
  r"kani::assume\(",
  r"#\[kani::stub\(",
  r"external_body",
  r"assume_specification",
  r"\badmit\(",
  r"\bassume\(",
  r"exec_allows_no_decreases_clause",
]


def scan_assumptions(paths):
  found = []
  for p in paths:
    try:
      txt = open(p).read().split("\n")
    except OSError:
      continue
    for n, l in enumerate(txt, 1):
      s = l.strip()
      if s.startswith("//"):
        continue
      for pat in ASSUME_PATTERNS:
        if re.search(pat, s):
          found.append("%s:%d: %s" % (os.path.relpath(p, VERIF), n, s[:160]))
          break
  return found


def load_json(path, default):
  try:
    return json.load(open(path))
  except (OSError, ValueError):
    return default


def write_json(path, obj):
  os.makedirs(os.path.dirname(path), exist_ok=True)
  tmp = path + ".tmp"
  with open(tmp, "w") as f:
    json.dump(obj, f, indent=1, sort_keys=False)
    f.write("\n")
  os.replace(tmp, path)
