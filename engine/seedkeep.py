#!/usr/bin/env python3
"""Keep a confirmed seeded change: seedkeep.py <prop> <k>   (reads /tmp/seed-<prop>/SEED/<k> and /var/tmp/seedconf/<prop>-<k>.json)"""
import json, os, shutil, sys
prop, k = sys.argv[1], sys.argv[2]
src = "/tmp/seed-%s/SEED/%s" % (prop, k)
conf = json.load(open("/var/tmp/seedconf/%s-%s.json" % (prop, k)))
if not conf.get("confirmed"):
  print("NOT confirmed:", prop, k, {x: conf.get(x) for x in ("patch_applies", "builds")}, conf.get("existing_tests_with_patch", {}).get("failed_lines"), conf.get("demo_with_patch", {}).get("fails"), conf.get("demo_without_patch", {}).get("passes"))
  sys.exit(1)
dst = "/verif/seeded/%s-%s" % (prop, k)
os.makedirs(dst, exist_ok=True)
shutil.copy(os.path.join(src, "patch.diff"), dst)
shutil.copy(os.path.join(src, "demo.rs"), dst)
meta = json.load(open(os.path.join(src, "meta.json")))
meta["confirmed_by_me"] = {
  "what_i_ran": "engine/seedtool.py confirm (scratch worktree): git apply; cargo build; cargo test -p %s --lib --tests (existing suite, unedited) WITH the patch; demo as tests/seed_demo_%s.rs WITH the patch (must fail) and WITHOUT (must pass)" % (conf["crate"], k),
  "existing_tests_with_patch": conf["existing_tests_with_patch"],
  "demo_with_patch_fails": conf["demo_with_patch"]["fails"],
  "demo_without_patch_passes": conf["demo_without_patch"]["passes"],
}
json.dump(meta, open(os.path.join(dst, "meta.json"), "w"), indent=1)
print("kept", dst)
