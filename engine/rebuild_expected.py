#!/usr/bin/env python3
"""Rebuild contracts/expected.json (the obligations that are recorded as discharging on the pinned tree; only these can
raise a VIOLATION): union of the current list, every obligation reported `discharged` in evidence/*.json and - if the
log files of a thorough sanity run are given - every selected obligation of a property whose thorough run ended OK and
did not list it as undecided.  Obligations that no longer exist, tier=probe ones and obligations with a known finding
are dropped.  Hand-run only (never at check time)."""
import glob, json, re, sys
sys.path.insert(0, '/verif/engine')
import common, vextract
allobs = {}
for x in list(common.load_units().values()) + list(vextract.load_units().values()):
  for o in x.obligations:
    allobs[o.id] = o
exp = set(json.load(open('/verif/contracts/expected.json'))['discharged'])
for f in glob.glob('/verif/evidence/*.json'):
  for smp in json.load(open(f))['coverage']['samples']:
    if smp['status'] == 'discharged':
      exp.add(smp['obligation'])
for f in sys.argv[1:]:
  m = re.search(r'(C\d+)\.log$', f)
  txt = open(f).read()
  if not m or 'OK property=' not in txt:
    continue
  und = set(re.findall(r'undecided: (\S+)', txt))
  for oid, o in allobs.items():
    if m.group(1) in o.props and o.tier in ('quick', 'thorough') and oid not in und:
      exp.add(oid)
known = set(k.get('obligation') for k in json.load(open('/verif/known_findings.json')).get('findings', []))
exp = sorted(i for i in exp if i in allobs and allobs[i].tier != 'probe' and i not in known)
json.dump({'discharged': exp}, open('/verif/contracts/expected.json', 'w'), indent=1)
print(len(exp), 'expected; registered but not expected:', [i for i, o in allobs.items() if o.tier in ('quick', 'thorough') and i not in exp and i not in known])
