#!/usr/bin/env python3
"""Run the registered checks against a seeded change, the way they will be used:
   seedrun.py <seed dir with patch.diff> <out.json> [props=<P1,P2>|touch] [tier]
Copies /repo, applies the patch there (VERIF_REPO), runs `./check <P> --tier quick --no-evidence` for each
property (default: the property named in meta.json), records exit codes and the violated obligations.
`touch`: `./check ALL --touch <files>` (fast, but blind to obligations anchored in other files)."""
import json, os, re, subprocess, sys, shutil, time
seed, out = sys.argv[1], sys.argv[2]
mode = sys.argv[3] if len(sys.argv) > 3 else None
tier = sys.argv[4] if len(sys.argv) > 4 else "quick"
patch = os.path.join(seed, "patch.diff")
files = sorted(set(re.findall(r"^\+\+\+ b/(\S+)", open(patch).read(), re.M)))
meta = json.load(open(os.path.join(seed, "meta.json"))) if os.path.exists(os.path.join(seed, "meta.json")) else {}
props = [meta.get("property")] if not mode else (None if mode == "touch" else mode.replace("props=", "").split(","))
wt = "/var/tmp/seedrun.%d" % os.getpid()
subprocess.check_call(["rsync", "-a", "--exclude", "/target", "--exclude", ".git", "/repo/", wt + "/"])
rc = subprocess.call(["git", "apply", "--unsafe-paths", "--directory", wt, os.path.abspath(patch)], cwd="/")
if rc != 0:
  rc = subprocess.call(["patch", "-p1", "-s", "-i", os.path.abspath(patch)], cwd=wt)
res = {"seed": seed, "files": files, "patch_applies": rc == 0, "runs": []}
if rc == 0:
  env = dict(os.environ, VERIF_LOGTAG="-seed%d" % os.getpid(), VERIF_REPO=wt, VERIF_NO_PLAYBACK="1", VERIF_SCRATCH="/var/tmp/fibre-verif.seed%d" % os.getpid())
  cmds = [["./check", "ALL", "--touch", ",".join(files), "--tier", tier, "--no-evidence"]] if props is None else [["./check", p, "--tier", tier, "--no-evidence"] for p in props]
  for cmd in cmds:
    t0 = time.time()
    p = subprocess.run(cmd, cwd="/verif", env=env, stdout=subprocess.PIPE, stderr=subprocess.PIPE, text=True)
    res["runs"].append({"cmd": " ".join(cmd), "exit": p.returncode, "wall_s": round(time.time() - t0),
                        "violations": re.findall(r"VIOLATION property=\S+ replay=\S+ obligation=(\S+)", p.stdout),
                        "stdout_tail": p.stdout[-1500:], "stderr_tail": p.stderr[-1500:]})
  res["detected"] = any(r["exit"] == 1 and r["violations"] for r in res["runs"])
  res["violations"] = sorted(set(v for r in res["runs"] for v in r["violations"]))
shutil.rmtree(wt, ignore_errors=True)
json.dump(res, open(out, "w"), indent=1)
print(seed, "exits", [r["exit"] for r in res["runs"]], "violations:", res.get("violations"))
