#!/usr/bin/env python3
"""Run the checks against a seeded change: seedrun.py <seed dir with patch.diff> <out.json> [tier]
Applies the patch to a scratch worktree copy (VERIF_REPO), runs `./check ALL --touch <files>`, records
which obligations failed."""
import json, os, re, subprocess, sys, shutil, time
seed, out = sys.argv[1], sys.argv[2]
tier = sys.argv[3] if len(sys.argv) > 3 else "quick"
patch = os.path.join(seed, "patch.diff")
files = sorted(set(re.findall(r"^\+\+\+ b/(\S+)", open(patch).read(), re.M)))
wt = "/var/tmp/seedrun.%d" % os.getpid()
subprocess.check_call(["rsync", "-a", "--exclude", "/target", "--exclude", ".git", "/repo/", wt + "/"])
subprocess.check_call(["git", "init", "-q"], cwd=wt)
rc = subprocess.call(["git", "apply", os.path.abspath(patch)], cwd=wt)
res = {"seed": seed, "files": files, "patch_applies": rc == 0}
if rc == 0:
  env = dict(os.environ, VERIF_REPO=wt, VERIF_NO_PLAYBACK="1", VERIF_SCRATCH="/var/tmp/fibre-verif.seed%d" % os.getpid())
  t0 = time.time()
  p = subprocess.run(["./check", "ALL", "--touch", ",".join(files), "--tier", tier, "--no-evidence"], cwd="/verif", env=env, stdout=subprocess.PIPE, stderr=subprocess.PIPE, text=True)
  res["exit"] = p.returncode
  res["wall_s"] = round(time.time() - t0)
  res["violations"] = re.findall(r"VIOLATION property=ALL replay=\S+ obligation=(\S+)", p.stdout)
  res["stdout_tail"] = p.stdout[-1500:]
  res["stderr_tail"] = p.stderr[-1500:]
  res["detected"] = p.returncode == 1 and bool(res["violations"])
shutil.rmtree(wt, ignore_errors=True)
json.dump(res, open(out, "w"), indent=1)
print(seed, "exit", res.get("exit"), "violations:", res.get("violations"))
