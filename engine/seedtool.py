#!/usr/bin/env python3
"""Confirm a sub-agent's seeded change in its scratch worktree:
   patch applies, crate builds, existing tests pass WITH the patch, demo fails WITH and passes WITHOUT.
usage: seedtool.py confirm <worktree> <k> <crate> <out.json>"""
import json, os, re, subprocess, sys, time

def run(cmd, cwd, timeout=3000):
  t0 = time.time()
  try:
    p = subprocess.run(cmd, cwd=cwd, shell=True, stdout=subprocess.PIPE, stderr=subprocess.STDOUT, text=True, timeout=timeout)
    return p.returncode, p.stdout, time.time() - t0
  except subprocess.TimeoutExpired as e:
    return 124, (e.stdout or b"").decode(errors="replace") if isinstance(e.stdout, bytes) else (e.stdout or ""), time.time() - t0

def main():
  _, cmd, wt, k, crate, out = sys.argv
  env = "CARGO_TARGET_DIR=%s/target" % wt
  sd = os.path.join(wt, "SEED", k)
  res = {"worktree": wt, "k": k, "crate": crate}
  run("git checkout -- . ", wt)
  # demo placement: channels/tests/seed_demo_<k>.rs (agents' convention); refresh it from SEED/<k>/demo.rs
  cdir = {"fibre": "channels", "fibre_cache": "cache", "fibre_logging": "logging", "fibre_ioc": "ioc"}[crate]
  demo_dst = os.path.join(wt, cdir, "tests", "seed_demo_%s.rs" % k)
  # remove other demos so that the "existing tests" run is really the existing suite
  for f in os.listdir(os.path.join(wt, cdir, "tests")):
    if f.startswith("seed_demo_"):
      os.remove(os.path.join(wt, cdir, "tests", f))
  rc, o, _ = run("git apply --check SEED/%s/patch.diff && git apply SEED/%s/patch.diff" % (k, k), wt)
  res["patch_applies"] = rc == 0
  if rc != 0:
    res["error"] = o[-800:]
    json.dump(res, open(out, "w"), indent=1); return
  rc, o, t = run("%s cargo build --offline -p %s -j 6 2>&1 | tail -3" % (env, crate), wt)
  res["builds"] = rc == 0 and "error" not in o
  rc, o, t = run("%s cargo test --offline -p %s -j 6 --lib --tests -- --test-threads 6 --skip looped_repro 2>&1 | grep -E 'test result|FAILED|panicked|^error' | head -60" % (env, crate), wt, 3000)
  fails = [l for l in o.split("\n") if "FAILED" in l or l.startswith("error")]
  passed = sum(int(x) for x in re.findall(r"(\d+) passed", o))
  res["existing_tests_with_patch"] = {"passed": passed, "failed_lines": fails[:10], "ok": (not fails) and passed >= 50, "secs": round(t)}
  # demo with patch
  open(demo_dst, "w").write(open(os.path.join(sd, "demo.rs")).read())
  rc, o, t = run("%s cargo test --offline -p %s -j 6 --test seed_demo_%s -- --test-threads 4 2>&1 | grep -E 'test result|^test |panicked' | head -20" % (env, crate, k), wt, 1500)
  res["demo_with_patch"] = {"output": o[-1200:], "fails": "FAILED" in o or "failed" in o}
  run("git checkout -- .", wt)
  rc, o, t = run("%s cargo test --offline -p %s -j 6 --test seed_demo_%s -- --test-threads 4 2>&1 | grep -E 'test result|^test |panicked' | head -20" % (env, crate, k), wt, 1500)
  res["demo_without_patch"] = {"output": o[-1200:], "passes": ("test result: ok" in o) and "FAILED" not in o}
  os.remove(demo_dst)
  res["confirmed"] = bool(res["builds"] and res["existing_tests_with_patch"]["ok"] and res["demo_with_patch"]["fails"] and res["demo_without_patch"]["passes"])
  json.dump(res, open(out, "w"), indent=1)
  print(out, "confirmed" if res["confirmed"] else "NOT confirmed")

main()
