// @unit crate=fibre_logging file=logging/src/roller.rs
// C20 kernel: retention keeps the NEWEST files: `impl Ord for RolledFile` sorts newest timestamp first,
// then highest sequence first, and is a total order consistent with (timestamp, sequence).
use super::*;

/// second `secs` (< 86400) of day `day` (1 or 2) of January 2024: built without division
fn file(day: u32, secs: u32, seq: u32) -> RolledFile {
  let (h, m, s) = (secs / 3600, (secs / 60) % 60, secs % 60);
  RolledFile {
    timestamp: chrono::NaiveDate::from_ymd_opt(2024, 1, day).unwrap().and_hms_opt(h, m, s).unwrap().and_utc(),
    sequence: seq,
    path: std::path::PathBuf::new(),
    is_compressed: false,
  }
}

// @obligation id=log.roll.order props=C20 kind=full tier=quick bound="two rolled files; timestamps any whole second of two consecutive days; sequences any u32"
#[kani::proof]
#[kani::unwind(4)]
fn ob_log_roll_order() {
  let (d1, d2): (bool, bool) = (kani::any(), kani::any());
  let (t1, t2): (u32, u32) = (kani::any(), kani::any());
  kani::assume(t1 < 86_400 && t2 < 86_400);
  let (q1, q2): (u32, u32) = (kani::any(), kani::any());
  let a = file(if d1 { 2 } else { 1 }, t1, q1);
  let b = file(if d2 { 2 } else { 1 }, t2, q2);
  let s1: u64 = (d1 as u64) * 86_400 + t1 as u64;
  let s2: u64 = (d2 as u64) * 86_400 + t2 as u64;
  use std::cmp::Ordering::*;
  let o = a.cmp(&b);
  // newest first: a sorts BEFORE b iff a is newer, or same time and higher sequence
  let a_newer = s1 > s2 || (s1 == s2 && q1 > q2);
  let b_newer = s2 > s1 || (s1 == s2 && q2 > q1);
  assert!((o == Less) == a_newer);
  assert!((o == Greater) == b_newer);
  assert!((o == Equal) == (s1 == s2 && q1 == q2));
  assert!(b.cmp(&a) == o.reverse());
  assert!(a.partial_cmp(&b) == Some(o));
  kani::cover!(o == Less);
  kani::cover!(o == Equal);
  kani::cover!(true, "END");
}
