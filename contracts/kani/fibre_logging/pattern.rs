// @unit crate=fibre_logging file=logging/src/encoders/pattern.rs
// C20 kernels: the pattern encoder renders without panicking and reproduces content verbatim.
use super::*;

/// Stand-ins for the totality obligation: producing the fill runs |padding| times (up to 2^31), which no
/// unwinding bound covers.  `core::fmt::write` / `str::repeat` are cut; what is checked for EVERY i32 is the
/// width arithmetic and the verbatim branch.  Rendering is checked separately (bounded) with the real code.
pub(crate) fn stub_fmt_write(_o: &mut dyn core::fmt::Write, _a: core::fmt::Arguments<'_>) -> core::fmt::Result {
  Ok(())
}
pub(crate) fn stub_repeat(_s: &str, _n: usize) -> String {
  String::new()
}
/// char counting of core::str (bit-trick chunk loops, 430 s of solver time): any count <= byte length
pub(crate) fn stub_count_chars(s: &str) -> usize {
  let n: usize = kani::any();
  kani::assume(n <= s.len());
  n
}

fn content3(buf: &mut [u8; 3]) -> usize {
  let len: usize = kani::any();
  kani::assume(len <= 3);
  let mut i = 0;
  while i < 3 { let c: u8 = kani::any(); kani::assume(c >= b'a' && c <= b'z'); buf[i] = c; i += 1; }
  len
}

// @obligation id=log.pad.total props=C20 kind=full tier=quick bound="padding: every i32; content: every prefix of abc; core::fmt::write and str::repeat stubbed (the width computation and the verbatim branch are what is checked)"
#[kani::proof]
#[kani::stub(core::fmt::write, stub_fmt_write)]
#[kani::stub(str::repeat, stub_repeat)]
#[kani::stub(core::str::count::count_chars, stub_count_chars)]
#[kani::unwind(6)]
fn ob_log_pad_total() {
  let f = PatternFormatter { segments: Vec::new() };
  let padding: i32 = kani::any();
  let cb = [b'a', b'b', b'c'];
  let cl: usize = kani::any();
  kani::assume(cl <= 3);
  let content = unsafe { std::str::from_utf8_unchecked(&cb[..cl]) };
  let mut buf = String::new();
  f.apply_padding(&mut buf, content, padding); // must not panic for ANY padding
  let w = (padding as i64).unsigned_abs();
  if (cl as u64) >= w {
    // content at least as wide as the field: appended verbatim
    assert!(buf.as_bytes() == &cb[..cl]);
    kani::cover!(true);
  }
  let c_min = padding == i32::MIN; kani::cover!(c_min);
  let c_neg = padding < 0 && padding > -3; kani::cover!(c_neg);
  kani::cover!(true, "END");
}

// (dropped after measurement) a bounded rendering check of the padded layout through the real
// `str::repeat` / `chars().count()`: CBMC runs out of memory (> 6.5 GB, 15 min) even for concrete paddings
// and a prefix of "abc" as content.  The padded layout is therefore NOT decided by this machinery.
