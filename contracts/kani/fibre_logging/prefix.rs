// @unit crate=fibre_logging file=logging/src/subscriber/actor.rs
// C19 kernel: a logger name matches an event target iff it is the target itself or a module-path
// ancestor of it (the prefix must end at a `::` boundary): `my_app` matches `my_app` and `my_app::db`
// but not `my_apple`.  Bounded: all strings of length <= N over the alphabet {a, b, :}.
use super::*;

const N: usize = 5;

fn sym_str(buf: &mut [u8; N]) -> usize {
  let len: usize = kani::any();
  kani::assume(len <= N);
  let mut i = 0;
  while i < N {
    let c: u8 = kani::any();
    kani::assume(c == b'a' || c == b'b' || c == b':');
    buf[i] = c;
    i += 1;
  }
  len
}

/// reference: t == p, or t = p ++ "::" ++ anything
fn spec_matches(t: &[u8], p: &[u8]) -> bool {
  if p.len() > t.len() { return false; }
  let mut i = 0;
  while i < N { if i < p.len() && t[i] != p[i] { return false; } i += 1; }
  if t.len() == p.len() { return true; }
  t.len() >= p.len() + 2 && t[p.len()] == b':' && t[p.len() + 1] == b':'
}

// @obligation id=log.prefix.boundary props=C19 kind=hist tier=quick bound="target and logger name: every string of length <= 5 over {a,b,:}"
#[kani::proof]
#[kani::unwind(8)]
fn ob_log_prefix_boundary() {
  let mut tb = [0u8; N];
  let mut pb = [0u8; N];
  let tl = sym_str(&mut tb);
  let pl = sym_str(&mut pb);
  let t = unsafe { std::str::from_utf8_unchecked(&tb[..tl]) };
  let p = unsafe { std::str::from_utf8_unchecked(&pb[..pl]) };
  let got = target_matches_prefix(t, p);
  let want = spec_matches(&tb[..tl], &pb[..pl]);
  assert!(got == want);
  let c_apple = !got && pl > 0 && tl > pl && tb[0] == pb[0]; kani::cover!(c_apple); // my_apple vs my_app
  let c_child = got && tl > pl; kani::cover!(c_child);
  let c_same = got && tl == pl && tl > 0; kani::cover!(c_same);
  kani::cover!(true, "END");
}
