// @unit crate=fibre_cache file=cache/src/entry.rs
// C12 kernels: the expiry predicate and the constructors that establish its fields.
//
// S-EXP: expired(e, now, tti) <=> (e.expires_at != 0 && now >= e.expires_at)
//                               || (tti = Some(d) && now >= e.last_accessed + d)
// `now` is a harness-controlled virtual clock (time::now_duration is stubbed).
use super::*;

// Durations are built from (secs, subsec nanos) so that no 64-bit DIVISION appears in the query
// (Duration::from_nanos divides; measured: the solver does not finish on it).
pub(crate) static mut NOW_NANOS: u64 = 0;
pub(crate) static mut NOW_PARTS: (u64, u32) = (0, 0);
pub(crate) fn nanos_of(secs: u64, sub: u32) -> u64 { (secs as u128 * 1_000_000_000u128 + sub as u128) as u64 }
pub(crate) fn set_now(secs: u64, sub: u32) { unsafe { NOW_PARTS = (secs, sub); NOW_NANOS = nanos_of(secs, sub); } }
pub(crate) fn any_now() -> u64 {
  let secs32: u32 = kani::any(); // 136 years of cache uptime
  let secs = secs32 as u64;
  let sub: u32 = kani::any();
  kani::assume(sub < 1_000_000_000);
  set_now(secs, sub);
  nanos_of(secs, sub)
}
pub(crate) fn stub_now_duration() -> Duration {
  let (s, n) = unsafe { NOW_PARTS };
  Duration::new(s, n)
}

fn any_opt_nanos() -> (Option<Duration>, u64) {
  let some: bool = kani::any();
  let secs32: u32 = kani::any();
  let secs = secs32 as u64;
  let sub: u32 = kani::any();
  kani::assume(sub < 1_000_000_000);
  if some { (Some(Duration::new(secs, sub)), nanos_of(secs, sub)) } else { (None, 0) }
}

// @obligation id=cache.entry.is_expired props=C12 kind=full tier=quick bound="expires_at, last_accessed: every u64; now: every (secs < 2^32, nanos); tti: None or every (secs < 2^32, nanos) with last_accessed + tti <= u64::MAX"
#[kani::proof]
#[kani::stub(crate::time::now_duration, stub_now_duration)]
#[kani::unwind(3)]
fn ob_cache_entry_is_expired() {
  let e = CacheEntry::new_with_cost(Arc::new(0u8), 1);
  let (ea, la): (u64, u64) = (kani::any(), kani::any());
  e.expires_at.store(ea, Ordering::Relaxed);
  e.last_accessed.store(la, Ordering::Relaxed);
  let now = any_now();
  let (tti, d) = any_opt_nanos();
  kani::assume(la <= u64::MAX - d); // the source adds unchecked (listed assumption)
  let got = e.is_expired(tti);
  let want = (ea != 0 && now >= ea) || (tti.is_some() && now >= la + d);
  assert!(got == want);
  // frame: the predicate does not touch the entry (peek does not refresh)
  assert!(e.expires_at.load(Ordering::Relaxed) == ea && e.last_accessed.load(Ordering::Relaxed) == la);
  let c_at_deadline = got && ea != 0 && now == ea; kani::cover!(c_at_deadline); // AT the expiry instant is expired
  let c_before = !got && ea != 0 && now + 1 == ea; kani::cover!(c_before);
  let c_tti_at = got && tti.is_some() && ea == 0 && d > 0 && now == la + d; kani::cover!(c_tti_at);
  kani::cover!(true, "END");
}

fn step_ctor(which: u8) {
  let now = any_now();
  let (ttl, t) = any_opt_nanos();
  let (tti, _d) = any_opt_nanos();
  let cost: u64 = kani::any();
  let e = match which {
    0 => CacheEntry::new(7u8, cost, ttl, tti),
    1 => CacheEntry::new_with_expiry(7u8, cost, ttl, tti), // here `ttl` is an absolute deadline
    2 => CacheEntry::new_with_custom_expiry(7u8, cost, t, tti),
    _ => CacheEntry::new_with_cost(Arc::new(7u8), cost),
  };
  let ea = e.expires_at.load(Ordering::Relaxed);
  let la = e.last_accessed.load(Ordering::Relaxed);
  assert!(e.cost() == cost && *e.value() == 7);
  match which {
    0 => { assert!(ea == if ttl.is_some() { now + t } else { 0 }); assert!(la == if tti.is_some() { now } else { 0 }); }
    1 => { assert!(ea == t); assert!(la == if tti.is_some() { now } else { 0 }); }
    2 => { assert!(ea == t); assert!(la == if tti.is_some() { now } else { 0 }); }
    _ => { assert!(ea == 0 && la == 0); }
  }
  // corner made explicit: a zero TTL at cache-epoch 0 stores expires_at == 0, which reads as "no TTL"
  let c_zero = which == 0 && ttl.is_some() && ea == 0; kani::cover!(c_zero || which != 0);
  kani::cover!(true, "END");
}

// @obligation id=cache.entry.fresh_then_due props=C12 kind=hist tier=quick bound="now: 3 s + any nanos; ttl: 5 s: new() is live at its creation instant and up to the last nanosecond, expired exactly at now + ttl; update_last_accessed stores now and leaves the TTL alone"
#[kani::proof]
#[kani::stub(crate::time::now_duration, stub_now_duration)]
#[kani::unwind(3)]
fn ob_cache_entry_fresh_then_due() {
  // concrete seconds, symbolic sub-second part: symbolic seconds on both sides need distributivity of a
  // 128-bit multiplication, which the SAT back end does not get through (measured: > 15 min)
  let ns: u16 = 3;
  let nsub: u32 = kani::any();
  kani::assume(nsub < 1_000_000_000);
  set_now(ns as u64, nsub);
  let ts: u16 = 5;
  let e = CacheEntry::new(7u8, 1, Some(Duration::from_secs(ts as u64)), None);
  assert!(!e.is_expired(None));
  if nsub > 0 {
    set_now(ns as u64 + ts as u64, nsub - 1); // one nanosecond before the deadline
    assert!(!e.is_expired(None));
  }
  set_now(ns as u64 + ts as u64, nsub); // AT the deadline
  assert!(e.is_expired(None));
  let ea = e.expires_at.load(Ordering::Relaxed);
  e.update_last_accessed();
  assert!(e.last_accessed.load(Ordering::Relaxed) == unsafe { NOW_NANOS });
  assert!(e.expires_at.load(Ordering::Relaxed) == ea); // an access does not extend a TTL
  kani::cover!(true, "END");
}

// @obligation id=cache.entry.ctor.new props=C12 kind=full tier=quick bound="now, ttl, tti: None or every (secs < 2^32, nanos); cost any u64"
#[kani::proof]
#[kani::stub(crate::time::now_duration, stub_now_duration)]
#[kani::unwind(3)]
fn ob_cache_entry_ctor_new() { step_ctor(0); }

// @obligation id=cache.entry.ctor.new_with_expiry props=C12 kind=full tier=quick bound="now, ttl, tti: None or every (secs < 2^32, nanos); cost any u64"
#[kani::proof]
#[kani::stub(crate::time::now_duration, stub_now_duration)]
#[kani::unwind(3)]
fn ob_cache_entry_ctor_new_with_expiry() { step_ctor(1); }

// @obligation id=cache.entry.ctor.new_with_custom_expiry props=C12 kind=full tier=quick bound="now, ttl, tti: None or every (secs < 2^32, nanos); cost any u64"
#[kani::proof]
#[kani::stub(crate::time::now_duration, stub_now_duration)]
#[kani::unwind(3)]
fn ob_cache_entry_ctor_new_with_custom_expiry() { step_ctor(2); }

// @obligation id=cache.entry.ctor.new_with_cost props=C12 kind=full tier=quick bound="now, ttl, tti: None or every (secs < 2^32, nanos); cost any u64"
#[kani::proof]
#[kani::stub(crate::time::now_duration, stub_now_duration)]
#[kani::unwind(3)]
fn ob_cache_entry_ctor_new_with_cost() { step_ctor(3); }
