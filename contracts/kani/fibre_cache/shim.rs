// @unit crate=fibre_cache file=cache/src/lib.rs
// `HashMap` stand-in for the policy units: an association list with the method names the policies use.
// CBMC does not get through hashbrown (DESIGN B.1.4: even a concrete insert + get gives no result in 10 min), so in the
// SIEVE and Clock policy files the line `use std::collections::HashMap` is swapped (cfg(kani) only) for this type.
// This replaces a DEPENDENCY (std's map) by an executable statement of its assumed contract - a finite map with at
// most one entry per key - the policy code itself is untouched.  Listed in the trusted base of C14.
#![allow(dead_code)]
use std::borrow::Borrow;

#[derive(Debug)]
pub(crate) struct HashMap<K, V> { pub(crate) e: Vec<(K, V)> }

impl<K, V> HashMap<K, V> {
  pub(crate) fn new() -> Self { HashMap { e: Vec::new() } }
}
impl<K: Eq, V> HashMap<K, V> {
  fn pos<Q: ?Sized + Eq>(&self, k: &Q) -> Option<usize> where K: Borrow<Q> {
    let mut i = 0;
    while i < self.e.len() { if self.e[i].0.borrow() == k { return Some(i); } i += 1; }
    None
  }
  pub(crate) fn contains_key<Q: ?Sized + Eq>(&self, k: &Q) -> bool where K: Borrow<Q> { self.pos(k).is_some() }
  pub(crate) fn get<Q: ?Sized + Eq>(&self, k: &Q) -> Option<&V> where K: Borrow<Q> { match self.pos(k) { Some(i) => Some(&self.e[i].1), None => None } }
  pub(crate) fn get_mut<Q: ?Sized + Eq>(&mut self, k: &Q) -> Option<&mut V> where K: Borrow<Q> { match self.pos(k) { Some(i) => Some(&mut self.e[i].1), None => None } }
  pub(crate) fn insert(&mut self, k: K, v: V) -> Option<V> {
    match self.pos(&k) { Some(i) => Some(std::mem::replace(&mut self.e[i].1, v)), None => { self.e.push((k, v)); None } }
  }
  pub(crate) fn remove<Q: ?Sized + Eq>(&mut self, k: &Q) -> Option<V> where K: Borrow<Q> { match self.pos(k) { Some(i) => Some(self.e.swap_remove(i).1), None => None } }
  pub(crate) fn clear(&mut self) { self.e.clear(); }
  pub(crate) fn len(&self) -> usize { self.e.len() }
  pub(crate) fn is_empty(&self) -> bool { self.e.is_empty() }
}

/// `VecDeque` stand-in (a Vec-backed sequence with the method names SIEVE uses): std's ring-buffer VecDeque makes
/// CBMC's propositional reduction exceed 24 GB as soon as a push is reachable (measured on the SIEVE evict step, the
/// topic mailbox and the rendezvous handle gates).  Same status as the HashMap shim: an executable statement of the
/// assumed contract of a dependency (a finite sequence), listed in the trusted base.
#[derive(Debug)]
pub(crate) struct VecDeque<T> { pub(crate) v: Vec<T> }
impl<T> VecDeque<T> {
  pub(crate) fn new() -> Self { VecDeque { v: Vec::new() } }
  pub(crate) fn len(&self) -> usize { self.v.len() }
  pub(crate) fn is_empty(&self) -> bool { self.v.is_empty() }
  pub(crate) fn clear(&mut self) { self.v.clear(); }
  pub(crate) fn push_back(&mut self, x: T) { self.v.push(x); }
  pub(crate) fn push_front(&mut self, x: T) {
    // no memmove (Vec::insert / Vec::remove copy overlapping ranges, which CBMC handles badly): push, then rotate by swaps
    self.v.push(x);
    let mut i = self.v.len() - 1;
    while i > 0 { self.v.swap(i, i - 1); i -= 1; }
  }
  pub(crate) fn remove(&mut self, i: usize) -> Option<T> {
    let n = self.v.len();
    if i >= n { return None; }
    let mut j = i;
    while j + 1 < n { self.v.swap(j, j + 1); j += 1; }
    self.v.pop()
  }
  pub(crate) fn retain<F: FnMut(&T) -> bool>(&mut self, mut f: F) {
    let mut i = 0;
    while i < self.v.len() { if f(&self.v[i]) { i += 1; } else { let _ = self.remove(i); } }
  }
  pub(crate) fn iter(&self) -> std::slice::Iter<'_, T> { self.v.iter() }
}
impl<T> std::ops::Index<usize> for VecDeque<T> { type Output = T; fn index(&self, i: usize) -> &T { &self.v[i] } }
