// @unit crate=fibre_cache file=cache/src/lib.rs
// `HashMap` stand-in for the policy units: an association list with the method names the policies use.
// CBMC does not get through hashbrown (DESIGN B.1.4: even a concrete insert + get gives no result in 10 min), so in the
// SIEVE and Clock policy files the line `use std::collections::HashMap` is swapped (cfg(kani) only) for this type.
// This replaces a DEPENDENCY (std's map) by an executable statement of its assumed contract - a finite map with at
// most one entry per key - the policy code itself is untouched.  Listed in the trusted base of C14.
#![allow(dead_code)]
use std::borrow::Borrow;

#[derive(Debug)]
pub(crate) struct HashMap<K, V> { pub(crate) e: Vec<(K, V)> }

impl<K, V> HashMap<K, V> {
  pub(crate) fn new() -> Self { HashMap { e: Vec::new() } }
}
impl<K: Eq, V> HashMap<K, V> {
  fn pos<Q: ?Sized + Eq>(&self, k: &Q) -> Option<usize> where K: Borrow<Q> {
    let mut i = 0;
    while i < self.e.len() { if self.e[i].0.borrow() == k { return Some(i); } i += 1; }
    None
  }
  pub(crate) fn contains_key<Q: ?Sized + Eq>(&self, k: &Q) -> bool where K: Borrow<Q> { self.pos(k).is_some() }
  pub(crate) fn get<Q: ?Sized + Eq>(&self, k: &Q) -> Option<&V> where K: Borrow<Q> { match self.pos(k) { Some(i) => Some(&self.e[i].1), None => None } }
  pub(crate) fn get_mut<Q: ?Sized + Eq>(&mut self, k: &Q) -> Option<&mut V> where K: Borrow<Q> { match self.pos(k) { Some(i) => Some(&mut self.e[i].1), None => None } }
  pub(crate) fn insert(&mut self, k: K, v: V) -> Option<V> {
    match self.pos(&k) { Some(i) => Some(std::mem::replace(&mut self.e[i].1, v)), None => { self.e.push((k, v)); None } }
  }
  pub(crate) fn remove<Q: ?Sized + Eq>(&mut self, k: &Q) -> Option<V> where K: Borrow<Q> { match self.pos(k) { Some(i) => Some(self.e.swap_remove(i).1), None => None } }
  pub(crate) fn clear(&mut self) { self.e.clear(); }
  pub(crate) fn len(&self) -> usize { self.e.len() }
  pub(crate) fn is_empty(&self) -> bool { self.e.is_empty() }
}

/// `VecDeque` stand-in: array-backed sequence (same text as contracts/kani/fibre/vshim.rs): std's ring-buffer VecDeque makes
/// CBMC's propositional reduction exceed 24 GB as soon as a push is reachable (measured on the SIEVE evict step).
pub(crate) const DQ_CAP: usize = 4;
/// at most DQ_CAP elements (the harnesses that swap this type in never hold more); no heap, no memmove
#[derive(Debug)]
pub(crate) struct VecDeque<T> { pub(crate) a: [Option<T>; DQ_CAP], pub(crate) n: usize }
impl<T> VecDeque<T> {
  pub(crate) fn new() -> Self { VecDeque { a: [const { None }; DQ_CAP], n: 0 } }
  pub(crate) fn with_capacity(_n: usize) -> Self { Self::new() }
  pub(crate) fn len(&self) -> usize { self.n }
  pub(crate) fn is_empty(&self) -> bool { self.n == 0 }
  pub(crate) fn clear(&mut self) { let mut i = 0; while i < DQ_CAP { self.a[i] = None; i += 1; } self.n = 0; }
  pub(crate) fn push_back(&mut self, x: T) { assert!(self.n < DQ_CAP, "deque stand-in capacity exceeded (harness bound)"); self.a[self.n] = Some(x); self.n += 1; }
  pub(crate) fn push_front(&mut self, x: T) {
    assert!(self.n < DQ_CAP, "deque stand-in capacity exceeded (harness bound)");
    let mut i = self.n;
    while i > 0 { self.a[i] = self.a[i - 1].take(); i -= 1; }
    self.a[0] = Some(x);
    self.n += 1;
  }
  pub(crate) fn remove(&mut self, i: usize) -> Option<T> {
    if i >= self.n { return None; }
    let out = self.a[i].take();
    let mut j = i;
    while j + 1 < self.n { self.a[j] = self.a[j + 1].take(); j += 1; }
    self.n -= 1;
    out
  }
  pub(crate) fn pop_front(&mut self) -> Option<T> { self.remove(0) }
  pub(crate) fn pop_back(&mut self) -> Option<T> { if self.n == 0 { None } else { self.n -= 1; self.a[self.n].take() } }
  pub(crate) fn retain<F: FnMut(&T) -> bool>(&mut self, mut f: F) {
    let mut i = 0;
    while i < self.n { if f(self.a[i].as_ref().unwrap()) { i += 1; } else { let _ = self.remove(i); } }
  }
  pub(crate) fn front(&self) -> Option<&T> { if self.n == 0 { None } else { self.a[0].as_ref() } }
  // concrete iterator types without a destructor (an opaque `impl Iterator` would extend the borrow over the whole
  // `if let` that consumes it, which the code under contract does not tolerate)
  pub(crate) fn iter<'a>(&'a self) -> std::iter::Map<std::slice::Iter<'a, Option<T>>, fn(&'a Option<T>) -> &'a T> {
    fn un<'b, U>(o: &'b Option<U>) -> &'b U { o.as_ref().unwrap() }
    self.a[..self.n].iter().map(un::<T> as fn(&'a Option<T>) -> &'a T)
  }
  pub(crate) fn iter_mut<'a>(&'a mut self) -> std::iter::Map<std::slice::IterMut<'a, Option<T>>, fn(&'a mut Option<T>) -> &'a mut T> {
    fn un<'b, U>(o: &'b mut Option<U>) -> &'b mut U { o.as_mut().unwrap() }
    let n = self.n;
    self.a[..n].iter_mut().map(un::<T> as fn(&'a mut Option<T>) -> &'a mut T)
  }
  /// `drain(..)` only (the whole queue, front to back)
  pub(crate) fn drain(&mut self, _all: std::ops::RangeFull) -> std::vec::IntoIter<T> {
    let mut out = Vec::new();
    while let Some(x) = self.pop_front() { out.push(x); }
    out.into_iter()
  }
}
impl<'a, T> IntoIterator for &'a VecDeque<T> {
  type Item = &'a T;
  type IntoIter = std::vec::IntoIter<&'a T>;
  fn into_iter(self) -> Self::IntoIter { let mut v = Vec::new(); let mut i = 0; while i < self.n { v.push(self.a[i].as_ref().unwrap()); i += 1; } v.into_iter() }
}
impl<T> std::ops::Index<usize> for VecDeque<T> { type Output = T; fn index(&self, i: usize) -> &T { assert!(i < self.n); self.a[i].as_ref().unwrap() } }
