// @unit crate=fibre_cache file=cache/src/policy/lru_list.rs
// @needs fibre_cache/shim.rs
// @swap from="use std::{collections::HashMap, hash::Hash};" to="#[cfg(kani)] use crate::verif_k_shim::HashMap; #[cfg(kani)] use std::hash::Hash; #[cfg(not(kani))] use std::{collections::HashMap, hash::Hash};"
// The contract that the Verus policy units ASSUME for LruList (contracts/verus/lib/lrulist_contract.rs) checked on the
// real LruList - bounded: every list that can be built with up to 3 distinct keys (every order, costs symbolic), then ONE
// operation with symbolic arguments.  View = the (key, cost) entries from head (MRU) to tail (LRU).
// MEASURED: one push + one operation takes 5 min; two or three pushes exceed 24 GB (tier=probe).
// The arena (generational_arena) is the real one; std's HashMap is replaced by the association-list stand-in.
use super::*;

const N: usize = 3;
#[derive(Clone, Copy)]
struct Model { k: [u8; 4], c: [u64; 4], n: usize }
impl Model {
  fn has(&self, key: u8) -> Option<usize> { let mut i = 0; while i < 4 { if i < self.n && self.k[i] == key { return Some(i); } i += 1; } None }
  fn remove_at(&mut self, p: usize) { let mut i = p; while i + 1 < 4 { if i + 1 < self.n { self.k[i] = self.k[i + 1]; self.c[i] = self.c[i + 1]; } i += 1; } self.n -= 1; }
  fn push_front(&mut self, key: u8, cost: u64) {
    if let Some(p) = self.has(key) { self.remove_at(p); }
    let mut i = 3; while i > 0 { if i <= self.n { self.k[i] = self.k[i - 1]; self.c[i] = self.c[i - 1]; } i -= 1; }
    self.k[0] = key; self.c[0] = cost; self.n += 1;
  }
  fn total(&self) -> u64 { let mut t = 0; let mut i = 0; while i < 4 { if i < self.n { t += self.c[i]; } i += 1; } t }
}

/// the list agrees with the model: forward walk, backward walk, lookup map, total cost
fn agrees(l: &LruList<u8>, m: &Model) {
  assert!(l.current_total_cost() == m.total());
  assert!(l.lookup.len() == m.n);
  let mut cur = l.head;
  let mut i = 0;
  while i < 4 {
    if i < m.n {
      let idx = cur.expect("forward walk ends early");
      let node = &l.nodes[idx];
      assert!(node.key == m.k[i] && node.cost == m.c[i]);
      assert!(l.contains(&m.k[i]));
      if i == 0 { assert!(node.prev.is_none()); }
      cur = node.next;
    }
    i += 1;
  }
  assert!(cur.is_none());
  let mut cur = l.tail;
  let mut i = 0;
  while i < 4 {
    if i < m.n {
      let idx = cur.expect("backward walk ends early");
      let node = &l.nodes[idx];
      assert!(node.key == m.k[m.n - 1 - i]);
      cur = node.prev;
    }
    i += 1;
  }
  assert!(cur.is_none());
}

fn step(npush: usize) {
  let mut l = LruList::<u8>::new();
  let mut m = Model { k: [0; 4], c: [0; 4], n: 0 };
  agrees(&l, &m);
  let mut i = 0;
  while i < N {
    if i < npush {
      let key: u8 = kani::any(); kani::assume(key < N as u8);
      let cost: u64 = kani::any(); kani::assume(cost <= 1 << 40);
      l.push_front(key, cost);
      m.push_front(key, cost);
    }
    i += 1;
  }
  agrees(&l, &m);
  let key: u8 = kani::any(); kani::assume(key < N as u8);
  let cost: u64 = kani::any(); kani::assume(cost <= 1 << 40);
  let op: u8 = kani::any(); kani::assume(op < 5);
  if op == 0 {
    l.push_front(key, cost); m.push_front(key, cost);
  } else if op == 1 {
    l.move_to_front(&key);
    if let Some(p) = m.has(key) { let c = m.c[p]; m.push_front(key, c); }
  } else if op == 2 {
    let r = l.pop_back();
    if m.n == 0 { assert!(r.is_none()); } else { assert!(r == Some((m.k[m.n - 1], m.c[m.n - 1]))); m.n -= 1; }
  } else if op == 3 {
    let r = l.remove(&key);
    match m.has(key) { Some(p) => { assert!(r == Some(m.c[p])); m.remove_at(p); } None => assert!(r.is_none()) }
  } else {
    assert!(l.contains(&key) == m.has(key).is_some());
    l.clear(); m.n = 0;
  }
  agrees(&l, &m);
  kani::cover!(true, "END");
}

// @obligation id=policy.k.lrulist.n1 props=C14 kind=hist tier=thorough bound="real LruList<u8> (real arena, association-list map): 1 push_front with key in {0,1,2}, cost < 2^40, then one of push_front / move_to_front / pop_back / remove / contains+clear"
#[kani::proof]
#[kani::unwind(6)]
fn ob_policy_k_lrulist_n1() { step(1); }

// @obligation id=policy.k.lrulist.n2 props=C14 kind=hist tier=probe bound="real LruList<u8>: 2 push_front calls (keys in {0,1,2}, may coincide), then one operation"
#[kani::proof]
#[kani::unwind(6)]
fn ob_policy_k_lrulist_n2() { step(2); }

// @obligation id=policy.k.lrulist.n3 props=C14 kind=hist tier=probe bound="real LruList<u8>: 3 push_front calls (keys in {0,1,2}, may coincide), then one operation"
#[kani::proof]
#[kani::unwind(6)]
fn ob_policy_k_lrulist_n3() { step(3); }
