// @unit crate=fibre_cache file=cache/src/policy/sieve.rs
// @needs fibre_cache/shim.rs
// @swap from="use std::collections::{HashMap, VecDeque};" to="#[cfg(kani)] use crate::verif_k_shim::HashMap; #[cfg(kani)] use crate::verif_k_shim::VecDeque; #[cfg(not(kani))] use std::collections::{HashMap, VecDeque};"
// S-POL step contracts for SievePolicy (SIEVE), from EVERY state with up to 3 tracked keys (costs, visited bits and the
// hand symbolic; keys are the distinct constants 0,1,2 - the policy never inspects keys beyond equality).
// The std HashMap AND VecDeque are replaced by the shims of shim.rs (association list / Vec-backed sequence).
use super::*;

pub(crate) fn stub_lock_slow(_m: &parking_lot::RawMutex, _t: Option<std::time::Instant>) -> bool { kani::assume(false); true }
pub(crate) fn stub_unlock_slow(_m: &parking_lot::RawMutex, _f: bool) { kani::assume(false); }

const N: usize = 3;
struct Shape { n: usize, cost: [u64; N], refd: [bool; N], hand: usize }

fn any_sieve(p: &SievePolicy<u8>, n: usize) -> Shape {
  let cost: [u64; N] = kani::any();
  let refd: [bool; N] = kani::any();
  let hand: usize = kani::any();
  kani::assume(hand <= n);
  let mut i = 0;
  while i < N { kani::assume(cost[i] <= 1 << 40); i += 1; }
  {
    let mut st = p.state.lock();
    let mut i = 0;
    while i < N { if i < n { st.items.insert(i as u8, SieveEntry { cost: cost[i], visited: refd[i] }); st.order.push_back(i as u8); } i += 1; }
    st.hand = hand;
  }
  Shape { n, cost, refd, hand }
}
fn tracked(p: &SievePolicy<u8>, k: u8) -> Option<u64> {
  let st = p.state.lock();
  let in_order = st.order.iter().filter(|x| **x == k).count();
  match st.items.get(&k) { Some(e) => { assert!(in_order == 1, "tracked key must appear exactly once in the order"); Some(e.cost) } None => { assert!(in_order == 0, "untracked key left in the order"); None } }
}

/// evict(n): victims are distinct, were tracked, are no longer; nothing else is dropped; the reported total is exactly
/// the sum of the victims' recorded costs; it reaches the request unless nothing is left.
fn step_evict(n: usize) {
  let p = SievePolicy::<u8>::new();
  let s = any_sieve(&p, n);
  let want: u64 = kani::any();
  let (victims, freed) = <SievePolicy<u8> as CachePolicy<u8, ()>>::evict(&p, want);
  let mut sum: u64 = 0;
  let mut seen = [false; N];
  let mut j = 0;
  while j < victims.len() {
    let k = victims[j] as usize;
    assert!(k < n && !seen[k], "victim not tracked or nominated twice");
    seen[k] = true;
    sum += s.cost[k];
    j += 1;
  }
  assert!(freed == sum, "reported cost differs from the victims' recorded costs");
  let mut left = 0;
  let mut i = 0;
  while i < N {
    if i < n {
      match tracked(&p, i as u8) { Some(c) => { assert!(!seen[i] && c == s.cost[i]); left += 1; } None => assert!(seen[i], "a key stopped being tracked without being nominated") }
    }
    i += 1;
  }
  assert!(freed >= want || left == 0, "evictable keys left although the request was not met");
  let c_two = victims.len() >= 2; kani::cover!(c_two);
  kani::cover!(true, "END");
}

/// on_admit: tracked exactly once with the NEW cost; nothing else changes.  on_access / on_remove: frame.
fn step_admit_access_remove(n: usize) {
  let p = SievePolicy::<u8>::new();
  let s = any_sieve(&p, n);
  let k: u8 = kani::any();
  kani::assume((k as usize) < N);
  let c: u64 = kani::any();
  let op: u8 = kani::any();
  kani::assume(op < 3);
  if op == 0 {
    let d = <SievePolicy<u8> as CachePolicy<u8, ()>>::on_admit(&p, &k, c);
    assert!(matches!(d, AdmissionDecision::Admit));
    assert!(tracked(&p, k) == Some(c), "re-admitting a key must record its new cost");
  } else if op == 1 {
    <SievePolicy<u8> as CachePolicy<u8, ()>>::on_access(&p, &k, c);
    assert!(tracked(&p, k) == if (k as usize) < n { Some(s.cost[k as usize]) } else { None });
  } else {
    <SievePolicy<u8> as CachePolicy<u8, ()>>::on_remove(&p, &k);
    assert!(tracked(&p, k).is_none());
    { let st = p.state.lock(); assert!(st.hand <= st.order.len()); }
  }
  let mut i = 0;
  while i < N { if i as u8 != k { assert!(tracked(&p, i as u8) == if i < n { Some(s.cost[i]) } else { None }); } i += 1; }
  kani::cover!(true, "END");
}

// @obligation id=policy.k.sieve.evict.n1 props=C14 kind=step tier=thorough bound="SievePolicy<u8> through the association-list map shim; 1 tracked keys, costs < 2^40, visited bits, hand and the request symbolic"
#[kani::proof]
#[kani::stub(parking_lot::RawMutex::lock_slow, stub_lock_slow)]
#[kani::stub(parking_lot::RawMutex::unlock_slow, stub_unlock_slow)]
#[kani::unwind(8)]
fn ob_policy_k_sieve_evict_n1() { step_evict(1); }

// @obligation id=policy.k.sieve.evict.n2 props=C14 kind=step tier=thorough bound="SievePolicy<u8> through the association-list map shim; 2 tracked keys, costs < 2^40, visited bits, hand and the request symbolic"
#[kani::proof]
#[kani::stub(parking_lot::RawMutex::lock_slow, stub_lock_slow)]
#[kani::stub(parking_lot::RawMutex::unlock_slow, stub_unlock_slow)]
#[kani::unwind(8)]
fn ob_policy_k_sieve_evict_n2() { step_evict(2); }

// @obligation id=policy.k.sieve.evict.n3 props=C14 kind=step tier=thorough bound="SievePolicy<u8> through the association-list map shim; 3 tracked keys, costs < 2^40, visited bits, hand and the request symbolic"
#[kani::proof]
#[kani::stub(parking_lot::RawMutex::lock_slow, stub_lock_slow)]
#[kani::stub(parking_lot::RawMutex::unlock_slow, stub_unlock_slow)]
#[kani::unwind(8)]
fn ob_policy_k_sieve_evict_n3() { step_evict(3); }

// @obligation id=policy.k.sieve.ops.n0 props=C14 kind=step tier=thorough bound="SievePolicy<u8> through the map shim; 0 tracked keys; one of on_admit / on_access / on_remove on any of 3 keys"
#[kani::proof]
#[kani::stub(parking_lot::RawMutex::lock_slow, stub_lock_slow)]
#[kani::stub(parking_lot::RawMutex::unlock_slow, stub_unlock_slow)]
#[kani::unwind(8)]
fn ob_policy_k_sieve_ops_n0() { step_admit_access_remove(0); }

// @obligation id=policy.k.sieve.ops.n2 props=C14 kind=step tier=thorough bound="SievePolicy<u8> through the map shim; 2 tracked keys; one of on_admit / on_access / on_remove on any of 3 keys"
#[kani::proof]
#[kani::stub(parking_lot::RawMutex::lock_slow, stub_lock_slow)]
#[kani::stub(parking_lot::RawMutex::unlock_slow, stub_unlock_slow)]
#[kani::unwind(8)]
fn ob_policy_k_sieve_ops_n2() { step_admit_access_remove(2); }
