// @unit crate=fibre file=channels/src/mpsc/bounded_v3/mod.rs
// @needs fibre/stubs.rs
// @needs fibre/mpsc_shared.rs
// Handle-level obligations of C04 for the bounded MPSC handles (Sender, AsyncSender, Receiver, AsyncReceiver).
// `Shared` is constructed with `Chunk::alloc` stubbed to one-slot chunks (see mpsc_shared.rs) and NO slot is ever
// touched: a closed handle must answer before it reaches the shared core.  A gate that is missing therefore shows
// up either as the wrong result or as an out-of-bounds slot access inside the core.
use super::*;
use crate::error::*;
use crate::verif_k_stubs::*;
use crate::internal::sync::Ordering;
use std::future::Future;
use std::task::{Context, Poll};

pub(crate) fn stub_instant_now() -> std::time::Instant { unsafe { std::mem::zeroed() } }

fn poll_once<F: Future>(f: std::pin::Pin<&mut F>, w: usize) -> Poll<F::Output> {
  let wk = waker(w);
  let mut cx = Context::from_waker(&wk);
  f.poll(&mut cx)
}

/// one extra sender is accounted for (as if a clone were alive) so that closing the sender under test
/// disconnects nothing
fn mk() -> (Sender<u8>, Receiver<u8>) {
  let (tx, rx) = bounded::<u8>(1);
  tx.shared.add_sender();
  (tx, rx)
}
fn mk_async() -> (AsyncSender<u8>, AsyncReceiver<u8>) {
  let (tx, rx) = bounded_async::<u8>(1);
  tx.shared.add_sender();
  (tx, rx)
}

fn gate_sender() {
  let (tx, rx) = mk();
  assert!(tx.close().is_ok());
  let s0 = rx.shared.k_snap();
  assert!(s0.0 == 1 && !s0.1);
  let x: u8 = kani::any();
  let y: u8 = kani::any();
  match tx.try_send(x) { Err(TrySendError::Closed(v)) => assert!(v == x), _ => panic!("closed Sender::try_send did not report Closed") }
  match tx.send(x) { Err(SendError::Closed) => {}, _ => panic!("closed Sender::send did not report Closed") }
  match tx.try_send_batch(vec![x, y]) {
    Err(e) => { assert!(e.sent == 0 && e.unsent.len() == 2 && e.unsent[0] == x && e.unsent[1] == y); assert!(matches!(e.reason, BatchSendErrorReason::Closed)); }
    _ => panic!("closed Sender::try_send_batch did not fail") }
  match tx.send_batch(vec![x, y]) {
    Err(e) => { assert!(e.sent == 0 && e.unsent.len() == 2 && e.unsent[0] == x && e.unsent[1] == y); }
    _ => panic!("closed Sender::send_batch did not fail") }
  { let mut v = vec![x, y]; match tx.try_send_batch_mut(&mut v) { Err(SendError::Closed) => assert!(v.len() == 2 && v[0] == x && v[1] == y), _ => panic!("closed Sender::try_send_batch_mut did not report Closed") } }
  { let mut v = vec![x, y]; match tx.send_batch_mut(&mut v) { Err(SendError::Closed) => assert!(v.len() == 2 && v[0] == x && v[1] == y), _ => panic!("closed Sender::send_batch_mut did not report Closed") } }
  assert!(tx.close().is_err());
  assert!(rx.shared.k_snap() == s0);
  drop(tx); // no second decrement
  assert!(rx.shared.k_snap() == s0);
  std::mem::forget(rx);
  kani::cover!(true, "END");
}

fn gate_async_sender() {
  let (tx, rx) = mk_async();
  assert!(tx.close().is_ok());
  let s0 = rx.shared.k_snap();
  assert!(s0.0 == 1 && !s0.1);
  let x: u8 = kani::any();
  let y: u8 = kani::any();
  match tx.try_send(x) { Err(TrySendError::Closed(v)) => assert!(v == x), _ => panic!("closed AsyncSender::try_send did not report Closed") }
  { let f = tx.send(x); let mut f = std::pin::pin!(f); match poll_once(f.as_mut(), 0) { Poll::Ready(Err(SendError::Closed)) => {}, _ => panic!("closed AsyncSender::send did not resolve to Closed") } }
  match tx.try_send_batch(vec![x, y]) {
    Err(e) => { assert!(e.sent == 0 && e.unsent.len() == 2 && e.unsent[0] == x && e.unsent[1] == y); assert!(matches!(e.reason, BatchSendErrorReason::Closed)); }
    _ => panic!("closed AsyncSender::try_send_batch did not fail") }
  { let f = tx.send_batch(vec![x, y]); let mut f = std::pin::pin!(f); match poll_once(f.as_mut(), 0) {
      Poll::Ready(Err(e)) => assert!(e.sent == 0 && e.unsent.len() == 2 && e.unsent[0] == x && e.unsent[1] == y),
      _ => panic!("closed AsyncSender::send_batch did not resolve to an error") } }
  { let mut v = vec![x, y]; match tx.try_send_batch_mut(&mut v) { Err(SendError::Closed) => assert!(v.len() == 2 && v[0] == x && v[1] == y), _ => panic!("closed AsyncSender::try_send_batch_mut did not report Closed") } }
  { let mut v = vec![x, y]; { let f = tx.send_batch_mut(&mut v); let mut f = std::pin::pin!(f); match poll_once(f.as_mut(), 0) {
      Poll::Ready(Err(SendError::Closed)) => {}, _ => panic!("closed AsyncSender::send_batch_mut did not resolve to Closed") } } assert!(v.len() == 2 && v[0] == x && v[1] == y); }
  assert!(tx.close().is_err());
  assert!(rx.shared.k_snap() == s0 && wakes(0) == 0);
  drop(tx);
  assert!(rx.shared.k_snap() == s0);
  std::mem::forget(rx);
  kani::cover!(true, "END");
}

fn gate_receiver() {
  let (tx, rx) = mk();
  assert!(rx.close().is_ok());
  let s0 = tx.shared.k_snap();
  assert!(s0.0 == 2 && s0.1);
  assert!(matches!(rx.try_recv(), Err(TryRecvError::Disconnected)));
  assert!(matches!(rx.recv(), Err(RecvError::Disconnected)));
  assert!(matches!(rx.try_recv_batch(2), Err(TryRecvError::Disconnected)));
  { let mut out = Vec::new(); assert!(matches!(rx.try_recv_batch_mut(&mut out, 2), Err(TryRecvError::Disconnected))); assert!(out.is_empty()); }
  assert!(matches!(rx.recv_batch(2), Err(RecvError::Disconnected)));
  { let mut out = Vec::new(); assert!(matches!(rx.recv_batch_mut(&mut out, 2), Err(RecvError::Disconnected))); assert!(out.is_empty()); }
  assert!(matches!(rx.recv_timeout(std::time::Duration::from_millis(5)), Err(RecvErrorTimeout::Disconnected)));
  assert!(rx.close().is_err());
  assert!(tx.shared.k_snap() == s0);
  drop(rx);
  assert!(tx.shared.k_snap() == s0);
  std::mem::forget(tx);
  kani::cover!(true, "END");
}

fn gate_async_receiver() {
  let (tx, rx) = mk_async();
  assert!(rx.close().is_ok());
  let s0 = tx.shared.k_snap();
  assert!(s0.0 == 2 && s0.1);
  assert!(matches!(rx.try_recv(), Err(TryRecvError::Disconnected)));
  { let f = rx.recv(); let mut f = std::pin::pin!(f); assert!(matches!(poll_once(f.as_mut(), 0), Poll::Ready(Err(RecvError::Disconnected)))); }
  assert!(matches!(rx.try_recv_batch(2), Err(TryRecvError::Disconnected)));
  { let mut out = Vec::new(); assert!(matches!(rx.try_recv_batch_mut(&mut out, 2), Err(TryRecvError::Disconnected))); assert!(out.is_empty()); }
  { let f = rx.recv_batch(2); let mut f = std::pin::pin!(f); assert!(matches!(poll_once(f.as_mut(), 0), Poll::Ready(Err(RecvError::Disconnected)))); }
  { let mut out = Vec::new(); { let f = rx.recv_batch_mut(&mut out, 2); let mut f = std::pin::pin!(f); assert!(matches!(poll_once(f.as_mut(), 0), Poll::Ready(Err(RecvError::Disconnected)))); } assert!(out.is_empty()); }
  assert!(rx.close().is_err());
  assert!(tx.shared.k_snap() == s0 && wakes(0) == 0);
  drop(rx);
  assert!(tx.shared.k_snap() == s0);
  std::mem::forget(tx);
  kani::cover!(true, "END");
}

/// conversions keep the closed flag and the counts (both directions, sender and receiver)
fn conv(closed: bool) {
  let (tx, rx) = mk();
  if closed { assert!(tx.close().is_ok()); }
  let s0 = rx.shared.k_snap();
  let rc_tx = std::sync::Arc::strong_count(&tx.shared);
  let atx = tx.to_async();
  assert!(atx.closed.load(Ordering::Relaxed) == closed && std::sync::Arc::strong_count(&atx.shared) == rc_tx);
  let stx = atx.to_sync();
  assert!(stx.closed.load(Ordering::Relaxed) == closed && std::sync::Arc::strong_count(&stx.shared) == rc_tx);
  let s1 = rx.shared.k_snap();
  assert!(s1.0 == s0.0 && s1.1 == s0.1);
  if closed {
    let x: u8 = kani::any();
    match stx.try_send(x) { Err(TrySendError::Closed(v)) => assert!(v == x), _ => panic!("a closed Sender was revived by to_async/to_sync") }
    assert!(stx.close().is_err());
  }
  drop(stx);
  assert!(rx.shared.k_sender_count() == if closed { s0.0 } else { s0.0 - 1 });
  // receiver side
  if closed { assert!(rx.close().is_ok()); }
  let rc_rx = std::sync::Arc::strong_count(&rx.shared);
  let arx = rx.to_async();
  assert!(arx.closed.load(Ordering::Relaxed) == closed && std::sync::Arc::strong_count(&arx.shared) == rc_rx);
  let rc0 = std::sync::Arc::strong_count(&arx.shared);
  let srx = arx.to_sync();
  assert!(srx.closed.load(Ordering::Relaxed) == closed);
  // a conversion moves the handle's reference, it neither adds nor loses one (a leaked count would keep the
  // shared core - and every undelivered value in it - alive for ever)
  assert!(std::sync::Arc::strong_count(&srx.shared) == rc0);
  if closed { assert!(matches!(srx.try_recv(), Err(TryRecvError::Disconnected))); assert!(srx.close().is_err()); }
  std::mem::forget(srx);
  kani::cover!(true, "END");
}

/// one of two sender handles going away disconnects nothing; the last one flips senders_alive exactly once
fn count_senders(by_drop: bool) {
  let (tx, rx) = bounded::<u8>(1);
  let tx2 = tx.clone();
  assert!(rx.shared.k_sender_count() == 2);
  if by_drop { drop(tx); } else { assert!(tx.close().is_ok()); drop(tx); }
  assert!(rx.shared.k_sender_count() == 1 && rx.shared.senders_alive() && !tx2.is_closed());
  if by_drop { drop(tx2); } else { assert!(tx2.close().is_ok()); assert!(tx2.close().is_err()); drop(tx2); }
  assert!(rx.shared.k_sender_count() == 0 && !rx.shared.senders_alive());
  std::mem::forget(rx);
  kani::cover!(true, "END");
}

/// after the receiver is gone every send form of an OPEN sender reports Closed and hands the value(s) back
fn closed_value() {
  let (tx, rx) = mk();
  drop(rx);
  let s0 = tx.shared.k_snap();
  assert!(s0.1);
  let x: u8 = kani::any();
  let y: u8 = kani::any();
  match tx.try_send(x) { Err(TrySendError::Closed(v)) => assert!(v == x), _ => panic!("try_send after the receiver is gone") }
  match tx.send(x) { Err(SendError::Closed) => {}, _ => panic!("send after the receiver is gone") }
  match tx.try_send_batch(vec![x, y]) { Err(e) => assert!(e.sent == 0 && e.unsent.len() == 2 && e.unsent[0] == x && e.unsent[1] == y), _ => panic!("try_send_batch after the receiver is gone") }
  match tx.send_batch(vec![x, y]) { Err(e) => assert!(e.sent == 0 && e.unsent.len() == 2 && e.unsent[0] == x && e.unsent[1] == y), _ => panic!("send_batch after the receiver is gone") }
  { let mut v = vec![x, y]; match tx.try_send_batch_mut(&mut v) { Err(SendError::Closed) => assert!(v.len() == 2 && v[0] == x && v[1] == y), _ => panic!("try_send_batch_mut after the receiver is gone") } }
  { let mut v = vec![x, y]; match tx.send_batch_mut(&mut v) { Err(SendError::Closed) => assert!(v.len() == 2 && v[0] == x && v[1] == y), _ => panic!("send_batch_mut after the receiver is gone") } }
  assert!(tx.shared.k_snap() == s0);
  std::mem::forget(tx);
  kani::cover!(true, "END");
}
fn closed_value_async() {
  let (tx, rx) = mk_async();
  drop(rx);
  let s0 = tx.shared.k_snap();
  assert!(s0.1);
  let x: u8 = kani::any();
  let y: u8 = kani::any();
  match tx.try_send(x) { Err(TrySendError::Closed(v)) => assert!(v == x), _ => panic!("try_send after the receiver is gone") }
  { let f = tx.send(x); let mut f = std::pin::pin!(f); match poll_once(f.as_mut(), 0) { Poll::Ready(Err(SendError::Closed)) => {}, _ => panic!("send after the receiver is gone") } }
  match tx.try_send_batch(vec![x, y]) { Err(e) => assert!(e.sent == 0 && e.unsent.len() == 2 && e.unsent[0] == x && e.unsent[1] == y), _ => panic!("try_send_batch after the receiver is gone") }
  { let f = tx.send_batch(vec![x, y]); let mut f = std::pin::pin!(f); match poll_once(f.as_mut(), 0) {
      Poll::Ready(Err(e)) => assert!(e.sent == 0 && e.unsent.len() == 2 && e.unsent[0] == x && e.unsent[1] == y), _ => panic!("send_batch after the receiver is gone") } }
  { let mut v = vec![x, y]; match tx.try_send_batch_mut(&mut v) { Err(SendError::Closed) => assert!(v.len() == 2 && v[0] == x && v[1] == y), _ => panic!("try_send_batch_mut after the receiver is gone") } }
  { let mut v = vec![x, y]; { let f = tx.send_batch_mut(&mut v); let mut f = std::pin::pin!(f); match poll_once(f.as_mut(), 0) {
      Poll::Ready(Err(SendError::Closed)) => {}, _ => panic!("send_batch_mut after the receiver is gone") } } assert!(v.len() == 2 && v[0] == x && v[1] == y); }
  assert!(tx.shared.k_snap() == s0);
  std::mem::forget(tx);
  kani::cover!(true, "END");
}

// @obligation id=c04.mpsc.gate.Sender props=C04,C01 kind=hist tier=quick bound="bounded(1) built with one-slot stub chunks (no slot is touched), wake_all_senders/wake_all_receivers cut (no-op stubs); payloads any u8; closed Sender: every send form, second close, drop"
#[kani::proof]
#[kani::stub(std::thread::current::current, crate::verif_k_stubs::stub_thread_current)]
#[kani::stub(parking_lot::RawMutex::lock_slow, crate::verif_k_stubs::stub_lock_slow)]
#[kani::stub(parking_lot::RawMutex::unlock_slow, crate::verif_k_stubs::stub_unlock_slow)]
#[kani::stub(crate::mpsc::bounded_v3::shared::Chunk::alloc, crate::mpsc::bounded_v3::shared::verif_k_mpsc_shared::stub_chunk_alloc)]
#[kani::stub(crate::mpsc::bounded_v3::shared::Shared::wake_all_senders, crate::mpsc::bounded_v3::shared::verif_k_mpsc_shared::stub_wake_all)]
#[kani::stub(crate::mpsc::bounded_v3::shared::Shared::wake_all_receivers, crate::mpsc::bounded_v3::shared::verif_k_mpsc_shared::stub_wake_all)]
#[kani::stub(std::thread::park, crate::verif_k_stubs::stub_park)]
#[kani::stub(std::thread::park_timeout, crate::verif_k_stubs::stub_park_timeout)]
#[kani::stub(std::time::Instant::now, stub_instant_now)]
#[kani::unwind(10)]
fn ob_c04_mpsc_gate_sender() { gate_sender(); }

// @obligation id=c04.mpsc.gate.AsyncSender props=C04,C01 kind=hist tier=quick bound="bounded(1) built with one-slot stub chunks (no slot is touched), wake_all_senders/wake_all_receivers cut (no-op stubs); payloads any u8; closed AsyncSender: every send form (futures polled once), second close, drop"
#[kani::proof]
#[kani::stub(std::thread::current::current, crate::verif_k_stubs::stub_thread_current)]
#[kani::stub(parking_lot::RawMutex::lock_slow, crate::verif_k_stubs::stub_lock_slow)]
#[kani::stub(parking_lot::RawMutex::unlock_slow, crate::verif_k_stubs::stub_unlock_slow)]
#[kani::stub(crate::mpsc::bounded_v3::shared::Chunk::alloc, crate::mpsc::bounded_v3::shared::verif_k_mpsc_shared::stub_chunk_alloc)]
#[kani::stub(crate::mpsc::bounded_v3::shared::Shared::wake_all_senders, crate::mpsc::bounded_v3::shared::verif_k_mpsc_shared::stub_wake_all)]
#[kani::stub(crate::mpsc::bounded_v3::shared::Shared::wake_all_receivers, crate::mpsc::bounded_v3::shared::verif_k_mpsc_shared::stub_wake_all)]
#[kani::stub(std::thread::park, crate::verif_k_stubs::stub_park)]
#[kani::stub(std::thread::park_timeout, crate::verif_k_stubs::stub_park_timeout)]
#[kani::stub(std::time::Instant::now, stub_instant_now)]
#[kani::unwind(10)]
fn ob_c04_mpsc_gate_async_sender() { gate_async_sender(); }

// @obligation id=c04.mpsc.gate.Receiver props=C04,C01 kind=hist tier=quick bound="bounded(1) built with one-slot stub chunks (no slot is touched), wake_all_senders/wake_all_receivers cut (no-op stubs); payloads any u8; closed Receiver: every receive form incl. recv_timeout, second close, drop"
#[kani::proof]
#[kani::stub(std::thread::current::current, crate::verif_k_stubs::stub_thread_current)]
#[kani::stub(parking_lot::RawMutex::lock_slow, crate::verif_k_stubs::stub_lock_slow)]
#[kani::stub(parking_lot::RawMutex::unlock_slow, crate::verif_k_stubs::stub_unlock_slow)]
#[kani::stub(crate::mpsc::bounded_v3::shared::Chunk::alloc, crate::mpsc::bounded_v3::shared::verif_k_mpsc_shared::stub_chunk_alloc)]
#[kani::stub(crate::mpsc::bounded_v3::shared::Shared::wake_all_senders, crate::mpsc::bounded_v3::shared::verif_k_mpsc_shared::stub_wake_all)]
#[kani::stub(crate::mpsc::bounded_v3::shared::Shared::wake_all_receivers, crate::mpsc::bounded_v3::shared::verif_k_mpsc_shared::stub_wake_all)]
#[kani::stub(std::thread::park, crate::verif_k_stubs::stub_park)]
#[kani::stub(std::thread::park_timeout, crate::verif_k_stubs::stub_park_timeout)]
#[kani::stub(std::time::Instant::now, stub_instant_now)]
#[kani::unwind(10)]
fn ob_c04_mpsc_gate_receiver() { gate_receiver(); }

// @obligation id=c04.mpsc.gate.AsyncReceiver props=C04,C01 kind=hist tier=quick bound="bounded(1) built with one-slot stub chunks (no slot is touched), wake_all_senders/wake_all_receivers cut (no-op stubs); payloads any u8; closed AsyncReceiver: every receive form (futures polled once), second close, drop"
#[kani::proof]
#[kani::stub(std::thread::current::current, crate::verif_k_stubs::stub_thread_current)]
#[kani::stub(parking_lot::RawMutex::lock_slow, crate::verif_k_stubs::stub_lock_slow)]
#[kani::stub(parking_lot::RawMutex::unlock_slow, crate::verif_k_stubs::stub_unlock_slow)]
#[kani::stub(crate::mpsc::bounded_v3::shared::Chunk::alloc, crate::mpsc::bounded_v3::shared::verif_k_mpsc_shared::stub_chunk_alloc)]
#[kani::stub(crate::mpsc::bounded_v3::shared::Shared::wake_all_senders, crate::mpsc::bounded_v3::shared::verif_k_mpsc_shared::stub_wake_all)]
#[kani::stub(crate::mpsc::bounded_v3::shared::Shared::wake_all_receivers, crate::mpsc::bounded_v3::shared::verif_k_mpsc_shared::stub_wake_all)]
#[kani::stub(std::thread::park, crate::verif_k_stubs::stub_park)]
#[kani::stub(std::thread::park_timeout, crate::verif_k_stubs::stub_park_timeout)]
#[kani::stub(std::time::Instant::now, stub_instant_now)]
#[kani::unwind(10)]
fn ob_c04_mpsc_gate_async_receiver() { gate_async_receiver(); }

// @obligation id=c04.mpsc.conv.closed props=C04,C01,C09 kind=hist tier=quick bound="bounded(1) built with one-slot stub chunks (no slot is touched), wake_all_senders/wake_all_receivers cut (no-op stubs); payloads any u8; close, to_async, to_sync on both sides"
#[kani::proof]
#[kani::stub(std::thread::current::current, crate::verif_k_stubs::stub_thread_current)]
#[kani::stub(parking_lot::RawMutex::lock_slow, crate::verif_k_stubs::stub_lock_slow)]
#[kani::stub(parking_lot::RawMutex::unlock_slow, crate::verif_k_stubs::stub_unlock_slow)]
#[kani::stub(crate::mpsc::bounded_v3::shared::Chunk::alloc, crate::mpsc::bounded_v3::shared::verif_k_mpsc_shared::stub_chunk_alloc)]
#[kani::stub(crate::mpsc::bounded_v3::shared::Shared::wake_all_senders, crate::mpsc::bounded_v3::shared::verif_k_mpsc_shared::stub_wake_all)]
#[kani::stub(crate::mpsc::bounded_v3::shared::Shared::wake_all_receivers, crate::mpsc::bounded_v3::shared::verif_k_mpsc_shared::stub_wake_all)]
#[kani::stub(std::thread::park, crate::verif_k_stubs::stub_park)]
#[kani::stub(std::thread::park_timeout, crate::verif_k_stubs::stub_park_timeout)]
#[kani::stub(std::time::Instant::now, stub_instant_now)]
#[kani::unwind(10)]
fn ob_c04_mpsc_conv_closed() { conv(true); }

// @obligation id=c04.mpsc.conv.open props=C04,C01,C09 kind=hist tier=quick bound="bounded(1) built with one-slot stub chunks (no slot is touched), wake_all_senders/wake_all_receivers cut (no-op stubs); payloads any u8; to_async, to_sync on both sides"
#[kani::proof]
#[kani::stub(std::thread::current::current, crate::verif_k_stubs::stub_thread_current)]
#[kani::stub(parking_lot::RawMutex::lock_slow, crate::verif_k_stubs::stub_lock_slow)]
#[kani::stub(parking_lot::RawMutex::unlock_slow, crate::verif_k_stubs::stub_unlock_slow)]
#[kani::stub(crate::mpsc::bounded_v3::shared::Chunk::alloc, crate::mpsc::bounded_v3::shared::verif_k_mpsc_shared::stub_chunk_alloc)]
#[kani::stub(crate::mpsc::bounded_v3::shared::Shared::wake_all_senders, crate::mpsc::bounded_v3::shared::verif_k_mpsc_shared::stub_wake_all)]
#[kani::stub(crate::mpsc::bounded_v3::shared::Shared::wake_all_receivers, crate::mpsc::bounded_v3::shared::verif_k_mpsc_shared::stub_wake_all)]
#[kani::stub(std::thread::park, crate::verif_k_stubs::stub_park)]
#[kani::stub(std::thread::park_timeout, crate::verif_k_stubs::stub_park_timeout)]
#[kani::stub(std::time::Instant::now, stub_instant_now)]
#[kani::unwind(10)]
fn ob_c04_mpsc_conv_open() { conv(false); }

// @obligation id=c04.mpsc.count.senders.drop props=C04 kind=hist tier=quick bound="bounded(1) built with one-slot stub chunks (no slot is touched), wake_all_senders/wake_all_receivers cut (no-op stubs); payloads any u8; two sender handles dropped one after the other"
#[kani::proof]
#[kani::stub(std::thread::current::current, crate::verif_k_stubs::stub_thread_current)]
#[kani::stub(parking_lot::RawMutex::lock_slow, crate::verif_k_stubs::stub_lock_slow)]
#[kani::stub(parking_lot::RawMutex::unlock_slow, crate::verif_k_stubs::stub_unlock_slow)]
#[kani::stub(crate::mpsc::bounded_v3::shared::Chunk::alloc, crate::mpsc::bounded_v3::shared::verif_k_mpsc_shared::stub_chunk_alloc)]
#[kani::stub(crate::mpsc::bounded_v3::shared::Shared::wake_all_senders, crate::mpsc::bounded_v3::shared::verif_k_mpsc_shared::stub_wake_all)]
#[kani::stub(crate::mpsc::bounded_v3::shared::Shared::wake_all_receivers, crate::mpsc::bounded_v3::shared::verif_k_mpsc_shared::stub_wake_all)]
#[kani::stub(std::thread::park, crate::verif_k_stubs::stub_park)]
#[kani::stub(std::thread::park_timeout, crate::verif_k_stubs::stub_park_timeout)]
#[kani::stub(std::time::Instant::now, stub_instant_now)]
#[kani::unwind(10)]
fn ob_c04_mpsc_count_senders_drop() { count_senders(true); }

// @obligation id=c04.mpsc.count.senders.close props=C04 kind=hist tier=quick bound="bounded(1) built with one-slot stub chunks (no slot is touched), wake_all_senders/wake_all_receivers cut (no-op stubs); payloads any u8; two sender handles closed one after the other"
#[kani::proof]
#[kani::stub(std::thread::current::current, crate::verif_k_stubs::stub_thread_current)]
#[kani::stub(parking_lot::RawMutex::lock_slow, crate::verif_k_stubs::stub_lock_slow)]
#[kani::stub(parking_lot::RawMutex::unlock_slow, crate::verif_k_stubs::stub_unlock_slow)]
#[kani::stub(crate::mpsc::bounded_v3::shared::Chunk::alloc, crate::mpsc::bounded_v3::shared::verif_k_mpsc_shared::stub_chunk_alloc)]
#[kani::stub(crate::mpsc::bounded_v3::shared::Shared::wake_all_senders, crate::mpsc::bounded_v3::shared::verif_k_mpsc_shared::stub_wake_all)]
#[kani::stub(crate::mpsc::bounded_v3::shared::Shared::wake_all_receivers, crate::mpsc::bounded_v3::shared::verif_k_mpsc_shared::stub_wake_all)]
#[kani::stub(std::thread::park, crate::verif_k_stubs::stub_park)]
#[kani::stub(std::thread::park_timeout, crate::verif_k_stubs::stub_park_timeout)]
#[kani::stub(std::time::Instant::now, stub_instant_now)]
#[kani::unwind(10)]
fn ob_c04_mpsc_count_senders_close() { count_senders(false); }

// @obligation id=c04.mpsc.closed_value.Sender props=C04,C01 kind=hist tier=probe bound="bounded(1) built with one-slot stub chunks (no slot is touched), wake_all_senders/wake_all_receivers cut (no-op stubs); payloads any u8; receiver dropped, every send form of an open Sender"
#[kani::proof]
#[kani::stub(std::thread::current::current, crate::verif_k_stubs::stub_thread_current)]
#[kani::stub(parking_lot::RawMutex::lock_slow, crate::verif_k_stubs::stub_lock_slow)]
#[kani::stub(parking_lot::RawMutex::unlock_slow, crate::verif_k_stubs::stub_unlock_slow)]
#[kani::stub(crate::mpsc::bounded_v3::shared::Chunk::alloc, crate::mpsc::bounded_v3::shared::verif_k_mpsc_shared::stub_chunk_alloc)]
#[kani::stub(crate::mpsc::bounded_v3::shared::Shared::wake_all_senders, crate::mpsc::bounded_v3::shared::verif_k_mpsc_shared::stub_wake_all)]
#[kani::stub(crate::mpsc::bounded_v3::shared::Shared::wake_all_receivers, crate::mpsc::bounded_v3::shared::verif_k_mpsc_shared::stub_wake_all)]
#[kani::stub(std::thread::park, crate::verif_k_stubs::stub_park)]
#[kani::stub(std::thread::park_timeout, crate::verif_k_stubs::stub_park_timeout)]
#[kani::stub(std::time::Instant::now, stub_instant_now)]
#[kani::unwind(10)]
fn ob_c04_mpsc_closed_value_sender() { closed_value(); }

// @obligation id=c04.mpsc.closed_value.AsyncSender props=C04,C01 kind=hist tier=probe bound="bounded(1) built with one-slot stub chunks (no slot is touched), wake_all_senders/wake_all_receivers cut (no-op stubs); payloads any u8; receiver dropped, every send form of an open AsyncSender"
#[kani::proof]
#[kani::stub(std::thread::current::current, crate::verif_k_stubs::stub_thread_current)]
#[kani::stub(parking_lot::RawMutex::lock_slow, crate::verif_k_stubs::stub_lock_slow)]
#[kani::stub(parking_lot::RawMutex::unlock_slow, crate::verif_k_stubs::stub_unlock_slow)]
#[kani::stub(crate::mpsc::bounded_v3::shared::Chunk::alloc, crate::mpsc::bounded_v3::shared::verif_k_mpsc_shared::stub_chunk_alloc)]
#[kani::stub(crate::mpsc::bounded_v3::shared::Shared::wake_all_senders, crate::mpsc::bounded_v3::shared::verif_k_mpsc_shared::stub_wake_all)]
#[kani::stub(crate::mpsc::bounded_v3::shared::Shared::wake_all_receivers, crate::mpsc::bounded_v3::shared::verif_k_mpsc_shared::stub_wake_all)]
#[kani::stub(std::thread::park, crate::verif_k_stubs::stub_park)]
#[kani::stub(std::thread::park_timeout, crate::verif_k_stubs::stub_park_timeout)]
#[kani::stub(std::time::Instant::now, stub_instant_now)]
#[kani::unwind(10)]
fn ob_c04_mpsc_closed_value_async_sender() { closed_value_async(); }
