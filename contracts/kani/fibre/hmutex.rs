// @unit crate=fibre file=channels/src/sync/mutex.rs
// @needs fibre/stubs.rs
// @needs fibre/waitlist.rs
// Contracts for HybridMutex: state-word transitions (full domain), unlock/wake, future queueing and
// cancellation (single-thread poll/wake/drop histories).
use super::*;
use crate::verif_k_stubs::*;
use crate::sync::wait_queue::verif_k_waitlist::*;

pub(crate) fn stub_lock_slow_hm<T>(_m: &HybridMutex<T>) -> MutexGuard<'_, T> {
  kani::assume(false);
  loop {}
}

impl<T> HybridMutex<T> {
  pub(crate) fn k_word(&self) -> usize { self.state.load(Ordering::Relaxed) }
  pub(crate) fn k_queue_len(&self) -> usize { self.waiters.k_len() }
}

// @obligation id=lock.mutex.try_acquire props=C10 kind=full tier=quick bound="every state word (usize)"
#[kani::proof]
#[kani::stub(std::thread::current::current, crate::verif_k_stubs::stub_thread_current)]
#[kani::unwind(3)]
fn ob_lock_mutex_try_acquire() {
  let m = HybridMutex::new(0u8);
  let s: usize = kani::any();
  m.state.store(s, Ordering::Relaxed);
  let r = m.try_acquire();
  let n = m.k_word();
  // acquires only if LOCKED was clear, and then adds exactly LOCKED; on failure the word is untouched.
  // (strong CAS, one thread: it also never fails spuriously)
  assert!(r == (s & LOCKED == 0));
  if r { assert!(n == s | LOCKED); } else { assert!(n == s); }
  kani::cover!(r);
  kani::cover!(!r);
  kani::cover!(true, "END");
}

/// unlock from any word with LOCKED set and a queue of `nq` task nodes (wakers 0..nq).
fn step_unlock(nq: usize) {
  let m = HybridMutex::new(0u8);
  let mut store = [task_node(true, 0), task_node(true, 1), task_node(true, 2)];
  let mut ptrs = [ptr::null_mut(); NN];
  let mut i = 0;
  while i < NN { ptrs[i] = &mut store[i] as *mut WaiterNode; i += 1; }
  {
    let mut g = m.waiters.lock();
    let mut i = 0;
    while i < NN { if i < nq { unsafe { g.link_back(ptrs[i]); } } i += 1; }
  }
  let s: usize = kani::any();
  kani::assume(s & LOCKED != 0);
  kani::assume(s & !(LOCKED | HAS_QUEUED) == 0);
  m.state.store(s, Ordering::Relaxed);
  m.unlock();
  let n = m.k_word();
  assert!(n & LOCKED == 0); // released
  if s & HAS_QUEUED != 0 && nq > 0 {
    // the wake owed to the queue head is delivered: exactly one waker, the FIFO head, which stays linked
    assert!(wakes(0) == 1 && node_state(ptrs[0]) == WOKEN && node_linked(ptrs[0]));
    assert!(wakes(1) == 0 && wakes(2) == 0);
    assert!(n & HAS_QUEUED != 0);
    kani::cover!(true);
  } else {
    assert!(wakes(0) == 0 && wakes(1) == 0 && wakes(2) == 0);
    if s & HAS_QUEUED != 0 { assert!(n & HAS_QUEUED == 0); } // stale flag on an empty queue is cleared
  }
  assert!(m.waiters.k_is_chain(&ptrs, nq));
  kani::cover!(true, "END");
}

// @obligation id=lock.mutex.guards props=C10 kind=hist tier=quick bound="try_lock / guard drop history of 5 calls"
#[kani::proof]
#[kani::stub(std::thread::current::current, crate::verif_k_stubs::stub_thread_current)]
#[kani::stub(crate::sync::mutex::HybridMutex::lock_slow, stub_lock_slow_hm)]
#[kani::unwind(3)]
fn ob_lock_mutex_guards() {
  let m = HybridMutex::new(5u8);
  let v: u8 = kani::any();
  let mut g1 = m.try_lock().unwrap();
  *g1 = v;
  // a mutex guard never coexists with another guard; try_ variants never block
  assert!(m.try_lock().is_none());
  assert!(m.k_word() & LOCKED != 0);
  drop(g1);
  assert!(m.k_word() == 0);
  let g2 = m.lock();
  assert!(*g2 == v);
  assert!(m.try_lock().is_none());
  drop(g2);
  assert!(m.try_lock().is_some());
  kani::cover!(true, "END");
}

fn fut<'a>(m: &'a HybridMutex<u8>) -> MutexFuture<'a, u8> { MutexFuture { lock: m, node: ptr::null_mut(), done: false } }

// @obligation id=lock.mutex.future_pending props=C10 kind=hist tier=quick bound="lock held; one future polled twice with two wakers, then unlock, then poll"
#[kani::proof]
#[kani::stub(std::thread::current::current, crate::verif_k_stubs::stub_thread_current)]
#[kani::unwind(6)]
fn ob_lock_mutex_future_pending() {
  let m = HybridMutex::new(0u8);
  let g = m.try_lock().unwrap();
  let (w0, w1) = (waker(0), waker(1));
  let mut f = fut(&m);
  assert!(Pin::new(&mut f).poll(&mut Context::from_waker(&w0)).is_pending());
  // Pending => queued exactly once, flag raised, so the holder's unlock owes (and pays) a wake
  assert!(m.k_queue_len() == 1 && m.k_word() == LOCKED | HAS_QUEUED);
  assert!(Pin::new(&mut f).poll(&mut Context::from_waker(&w1)).is_pending());
  assert!(m.k_queue_len() == 1);
  drop(g);
  assert!(wakes(1) == 1 && wakes(0) == 0); // the LATEST waker is the one invoked
  let r = Pin::new(&mut f).poll(&mut Context::from_waker(&w1));
  assert!(r.is_ready());
  assert!(m.k_queue_len() == 0 && m.k_word() == LOCKED);
  assert!(m.try_lock().is_none());
  drop(r);
  assert!(m.k_word() == 0);
  kani::cover!(true, "END");
}

// @obligation id=lock.mutex.future_barged props=C10 kind=hist tier=quick bound="lock held; one future pending; unlock wakes it; a try_lock barger takes the lock first; the woken future is polled (Pending) and must be armed again; the barger's unlock wakes it"
#[kani::proof]
#[kani::stub(std::thread::current::current, crate::verif_k_stubs::stub_thread_current)]
#[kani::unwind(6)]
fn ob_lock_mutex_future_barged() {
  let m = HybridMutex::new(0u8);
  let g = m.try_lock().unwrap();
  let w0 = waker(0);
  let mut f = fut(&m);
  assert!(Pin::new(&mut f).poll(&mut Context::from_waker(&w0)).is_pending());
  drop(g); // wakes the queued future once
  assert!(wakes(0) == 1);
  let barger = m.try_lock().unwrap(); // somebody else wins the re-contention
  // the woken future loses: it must stay queued AND be armed again, or the barger's unlock owes it nothing
  assert!(Pin::new(&mut f).poll(&mut Context::from_waker(&w0)).is_pending());
  assert!(m.k_queue_len() == 1 && m.k_word() == LOCKED | HAS_QUEUED);
  drop(barger);
  assert!(wakes(0) == 2, "a waiter that lost the re-contention was not woken by the next unlock");
  let r = Pin::new(&mut f).poll(&mut Context::from_waker(&w0));
  assert!(r.is_ready());
  drop(r);
  assert!(m.k_word() == 0 && m.k_queue_len() == 0);
  kani::cover!(true, "END");
}

/// Two pending futures A (waker 0), B (waker 1); optionally the holder unlocks (wakes A); then one future
/// is dropped.  A woken-then-dropped future must pass the wake on; a dropped future leaves the queue intact.
fn step_future_cancel(unlock_first: bool, drop_a: bool) {
  let m = HybridMutex::new(0u8);
  let g = m.try_lock().unwrap();
  let (w0, w1) = (waker(0), waker(1));
  let mut a = fut(&m);
  let mut b = fut(&m);
  assert!(Pin::new(&mut a).poll(&mut Context::from_waker(&w0)).is_pending());
  assert!(Pin::new(&mut b).poll(&mut Context::from_waker(&w1)).is_pending());
  assert!(m.k_queue_len() == 2);
  if unlock_first {
    drop(g);
    assert!(wakes(0) == 1 && wakes(1) == 0);
    if drop_a {
      drop(a);
      // A consumed the wake it will never use: B must be woken, or it sleeps forever on a free lock
      assert!(wakes(1) == 1);
      assert!(m.k_queue_len() == 1);
      assert!(Pin::new(&mut b).poll(&mut Context::from_waker(&w1)).is_ready());
      assert!(m.k_queue_len() == 0);
    } else {
      drop(b);
      assert!(wakes(0) == 1 && wakes(1) == 0 && m.k_queue_len() == 1);
      assert!(Pin::new(&mut a).poll(&mut Context::from_waker(&w0)).is_ready());
    }
  } else {
    if drop_a { drop(a); } else { drop(b); }
    assert!(wakes(0) == 0 && wakes(1) == 0 && m.k_queue_len() == 1);
    assert!(m.k_word() == LOCKED | HAS_QUEUED);
    drop(g);
    // the remaining waiter gets the wake
    if drop_a { assert!(wakes(1) == 1 && wakes(0) == 0); } else { assert!(wakes(0) == 1 && wakes(1) == 0); }
  }
  kani::cover!(true, "END");
}

// @obligation id=lock.mutex.future_drop_all props=C10 kind=hist tier=quick bound="lock held; two pending futures both dropped, then unlock"
#[kani::proof]
#[kani::stub(std::thread::current::current, crate::verif_k_stubs::stub_thread_current)]
#[kani::unwind(6)]
fn ob_lock_mutex_future_drop_all() {
  let m = HybridMutex::new(0u8);
  let g = m.try_lock().unwrap();
  let (w0, w1) = (waker(0), waker(1));
  let mut a = fut(&m);
  let mut b = fut(&m);
  assert!(Pin::new(&mut a).poll(&mut Context::from_waker(&w0)).is_pending());
  assert!(Pin::new(&mut b).poll(&mut Context::from_waker(&w1)).is_pending());
  drop(b);
  drop(a);
  // cancellation does not corrupt the queue: empty again, flag cleared
  assert!(m.k_queue_len() == 0 && m.k_word() == LOCKED);
  drop(g);
  assert!(wakes(0) == 0 && wakes(1) == 0 && m.k_word() == 0);
  assert!(m.try_lock().is_some());
  kani::cover!(true, "END");
}

// @obligation id=lock.mutex.unlock.q0 props=C10 kind=step tier=quick bound="every word with LOCKED set (HAS_QUEUED any); 0 queued task nodes"
#[kani::proof]
#[kani::stub(std::thread::current::current, crate::verif_k_stubs::stub_thread_current)]
#[kani::unwind(5)]
fn ob_lock_mutex_unlock_q0() { step_unlock(0); }

// @obligation id=lock.mutex.unlock.q1 props=C10 kind=step tier=quick bound="every word with LOCKED set (HAS_QUEUED any); 1 queued task nodes"
#[kani::proof]
#[kani::stub(std::thread::current::current, crate::verif_k_stubs::stub_thread_current)]
#[kani::unwind(5)]
fn ob_lock_mutex_unlock_q1() { step_unlock(1); }

// @obligation id=lock.mutex.unlock.q3 props=C10 kind=step tier=quick bound="every word with LOCKED set (HAS_QUEUED any); 3 queued task nodes"
#[kani::proof]
#[kani::stub(std::thread::current::current, crate::verif_k_stubs::stub_thread_current)]
#[kani::unwind(5)]
fn ob_lock_mutex_unlock_q3() { step_unlock(3); }

// @obligation id=lock.mutex.future_cancel.u0a0 props=C10 kind=hist tier=quick bound="lock held; futures A,B pending; drop B, then unlock"
#[kani::proof]
#[kani::stub(std::thread::current::current, crate::verif_k_stubs::stub_thread_current)]
#[kani::unwind(6)]
fn ob_lock_mutex_future_cancel_u0a0() { step_future_cancel(false, false); }

// @obligation id=lock.mutex.future_cancel.u0a1 props=C10 kind=hist tier=quick bound="lock held; futures A,B pending; drop A, then unlock"
#[kani::proof]
#[kani::stub(std::thread::current::current, crate::verif_k_stubs::stub_thread_current)]
#[kani::unwind(6)]
fn ob_lock_mutex_future_cancel_u0a1() { step_future_cancel(false, true); }

// @obligation id=lock.mutex.future_cancel.u1a0 props=C10 kind=hist tier=quick bound="lock held; futures A,B pending; unlock (wakes A) then drop B"
#[kani::proof]
#[kani::stub(std::thread::current::current, crate::verif_k_stubs::stub_thread_current)]
#[kani::unwind(6)]
fn ob_lock_mutex_future_cancel_u1a0() { step_future_cancel(true, false); }

// @obligation id=lock.mutex.future_cancel.u1a1 props=C10 kind=hist tier=quick bound="lock held; futures A,B pending; unlock (wakes A) then drop A"
#[kani::proof]
#[kani::stub(std::thread::current::current, crate::verif_k_stubs::stub_thread_current)]
#[kani::unwind(6)]
fn ob_lock_mutex_future_cancel_u1a1() { step_future_cancel(true, true); }
