// @unit crate=fibre file=channels/src/oneshot/core.rs
// @needs fibre/stubs.rs
// Full-domain contracts for the oneshot state machine (`OneShotShared`).
//
// State space: state in {EMPTY, WRITING, SENT, TAKEN, CLOSED} x receiver_dropped x sender_count in 0..=2
// x value slot; wf(): the slot holds a value iff state == SENT; EMPTY implies the receiver is alive
// and at least one sender exists (otherwise the last drop has moved EMPTY to CLOSED).  WRITING stands
// for "another sender is inside its critical section" and must be left alone by everybody else.
use super::*;
use crate::verif_k_stubs::*;
use std::task::{Context, Poll};

impl<T> OneShotShared<T> {
  pub(crate) fn k_state(&self) -> usize { self.state.load(Ordering::Relaxed) }
  pub(crate) fn k_slot_some(&self) -> bool { self.value_slot.lock().is_some() }
  pub(crate) fn wf(&self) -> bool {
    let st = self.k_state();
    let rd = self.receiver_dropped.load(Ordering::Relaxed);
    let sc = self.sender_count.load(Ordering::Relaxed);
    st <= STATE_CLOSED
      && (self.k_slot_some() == (st == STATE_SENT))
      && (st != STATE_EMPTY || (!rd && sc >= 1))
  }
}

fn peek_u8(s: &OneShotShared<u8>) -> Option<u8> {
  let g = s.value_slot.lock();
  match &*g { Some(mu) => Some(unsafe { mu.assume_init_read() }), None => None }
}

/// Every well-formed state; returns (state, receiver_dropped, sender_count, slot value).
fn any_shared_u8() -> (OneShotShared<u8>, usize, bool, usize, u8) {
  let s = OneShotShared::<u8>::new();
  let st: usize = kani::any();
  kani::assume(st <= STATE_CLOSED);
  let rd: bool = kani::any();
  let sc: usize = kani::any();
  kani::assume(sc <= 2);
  let v: u8 = kani::any();
  s.state.store(st, Ordering::Relaxed);
  s.receiver_dropped.store(rd, Ordering::Relaxed);
  s.sender_count.store(sc, Ordering::Relaxed);
  if st == STATE_SENT { *s.value_slot.lock() = Some(MaybeUninit::new(v)); }
  kani::assume(s.wf());
  (s, st, rd, sc, v)
}

// @obligation id=oneshot.send props=C01,C03 kind=full tier=quick bound="all 5 states x receiver_dropped x sender_count<=2 x slot; payload any u8"
#[kani::proof]
#[kani::stub(std::thread::current::current, crate::verif_k_stubs::stub_thread_current)]
#[kani::stub(parking_lot::RawMutex::lock_slow, crate::verif_k_stubs::stub_lock_slow)]
#[kani::stub(parking_lot::RawMutex::unlock_slow, crate::verif_k_stubs::stub_unlock_slow)]
#[kani::unwind(4)]
fn ob_oneshot_send() {
  let (s, st, rd, sc, v) = any_shared_u8();
  let registered: bool = kani::any();
  if registered { s.receiver_waker.register(&waker(0)); }
  let x: u8 = kani::any();
  let res = s.send(x);
  assert!(s.wf());
  assert!(s.sender_count.load(Ordering::Relaxed) == sc);
  assert!(s.receiver_dropped.load(Ordering::Relaxed) == rd);
  match res {
    Ok(()) => {
      // only the first send ever succeeds, and only towards a live receiver
      assert!(st == STATE_EMPTY && !rd);
      assert!(s.k_state() == STATE_SENT);
      assert!(peek_u8(&s) == Some(x));
      if registered { assert!(wakes(0) == 1); }
      kani::cover!(registered);
    }
    Err(e) => {
      assert!(!(st == STATE_EMPTY && !rd));
      // failure has no effect and hands the value back
      assert!(s.k_state() == st);
      assert!(peek_u8(&s) == if st == STATE_SENT { Some(v) } else { None });
      match e {
        TrySendError::Closed(y) => { assert!(y == x); assert!(rd); kani::cover!(st == STATE_SENT); }
        TrySendError::Sent(y) => { assert!(y == x); assert!(!rd && st != STATE_EMPTY); kani::cover!(st == STATE_WRITING); kani::cover!(st == STATE_CLOSED); }
        TrySendError::Full(_) => { assert!(false); }
      }
      assert!(wakes(0) == 0);
    }
  }
  kani::cover!(true, "END");
}

// @obligation id=oneshot.try_recv props=C01,C04 kind=full tier=quick bound="all 5 states x receiver_dropped x sender_count<=2 x slot; payload any u8"
#[kani::proof]
#[kani::stub(std::thread::current::current, crate::verif_k_stubs::stub_thread_current)]
#[kani::stub(parking_lot::RawMutex::lock_slow, crate::verif_k_stubs::stub_lock_slow)]
#[kani::stub(parking_lot::RawMutex::unlock_slow, crate::verif_k_stubs::stub_unlock_slow)]
#[kani::unwind(4)]
fn ob_oneshot_try_recv() {
  let (s, st, rd, sc, v) = any_shared_u8();
  let res = s.try_recv();
  assert!(s.wf());
  assert!(s.sender_count.load(Ordering::Relaxed) == sc);
  assert!(s.receiver_dropped.load(Ordering::Relaxed) == rd);
  match res {
    Ok(y) => {
      // a receive returns only a value that was sent, and takes it exactly once
      assert!(st == STATE_SENT && y == v);
      assert!(s.k_state() == STATE_TAKEN);
      assert!(peek_u8(&s).is_none());
      kani::cover!(sc == 0); // drain-then-disconnect: the value survives the last sender
    }
    Err(TryRecvError::Empty) => {
      assert!(st == STATE_WRITING || st == STATE_TAKEN || (st == STATE_EMPTY && sc > 0));
      assert!(s.k_state() == st);
      kani::cover!(st == STATE_TAKEN);
    }
    Err(TryRecvError::Disconnected) => {
      assert!(st == STATE_CLOSED || (st == STATE_EMPTY && sc == 0));
      // once Disconnected was observed no later send can succeed: the state is terminal
      assert!(s.k_state() == STATE_CLOSED);
      kani::cover!(st == STATE_CLOSED);
    }
  }
  // a second receive never yields a value
  let again = s.try_recv();
  assert!(again.is_err() || false);
  kani::cover!(true, "END");
}

// @obligation id=oneshot.decrement_senders props=C04,C09 kind=full tier=quick bound="all states, sender_count 1..=2"
#[kani::proof]
#[kani::stub(std::thread::current::current, crate::verif_k_stubs::stub_thread_current)]
#[kani::stub(parking_lot::RawMutex::lock_slow, crate::verif_k_stubs::stub_lock_slow)]
#[kani::stub(parking_lot::RawMutex::unlock_slow, crate::verif_k_stubs::stub_unlock_slow)]
#[kani::unwind(4)]
fn ob_oneshot_decrement_senders() {
  let (s, st, rd, sc, v) = any_shared_u8();
  kani::assume(sc >= 1);
  kani::assume(st != STATE_WRITING); // a sender inside send() still holds its handle
  let registered: bool = kani::any();
  if registered { s.receiver_waker.register(&waker(0)); }
  s.decrement_senders();
  assert!(s.wf());
  assert!(s.sender_count.load(Ordering::Relaxed) == sc - 1);
  assert!(s.receiver_dropped.load(Ordering::Relaxed) == rd);
  if sc == 2 {
    // one of several clones goes away: nothing is disconnected
    assert!(s.k_state() == st);
    assert!(peek_u8(&s) == if st == STATE_SENT { Some(v) } else { None });
    assert!(wakes(0) == 0);
  } else {
    if st == STATE_EMPTY {
      assert!(s.k_state() == STATE_CLOSED);
      if registered { assert!(wakes(0) == 1); } // receiver woken to observe Disconnected
    } else if st == STATE_SENT && !rd {
      // the value stays for the receiver (drain, then Disconnected)
      assert!(s.k_state() == STATE_SENT && peek_u8(&s) == Some(v));
    } else if st == STATE_SENT && rd {
      assert!(s.k_state() == STATE_TAKEN && peek_u8(&s).is_none());
    } else {
      assert!(s.k_state() == st);
    }
  }
  let c_last_empty = sc == 1 && st == STATE_EMPTY && registered;
  let c_last_orphan = sc == 1 && st == STATE_SENT && rd;
  kani::cover!(c_last_empty);
  kani::cover!(c_last_orphan);
  kani::cover!(true, "END");
}

// @obligation id=oneshot.mark_receiver_dropped props=C04 kind=full tier=quick bound="all states"
#[kani::proof]
#[kani::stub(std::thread::current::current, crate::verif_k_stubs::stub_thread_current)]
#[kani::stub(parking_lot::RawMutex::lock_slow, crate::verif_k_stubs::stub_lock_slow)]
#[kani::stub(parking_lot::RawMutex::unlock_slow, crate::verif_k_stubs::stub_unlock_slow)]
#[kani::unwind(4)]
fn ob_oneshot_mark_receiver_dropped() {
  let (s, st, _rd, sc, v) = any_shared_u8();
  s.mark_receiver_dropped();
  assert!(s.receiver_dropped.load(Ordering::Relaxed));
  assert!(s.sender_count.load(Ordering::Relaxed) == sc);
  if st == STATE_EMPTY { assert!(s.k_state() == STATE_CLOSED); } else { assert!(s.k_state() == st); }
  assert!(peek_u8(&s) == if st == STATE_SENT { Some(v) } else { None });
  assert!(s.wf());
  // every later send fails with Closed and hands the value back
  let x: u8 = kani::any();
  match s.send(x) {
    Err(TrySendError::Closed(y)) => assert!(y == x),
    _ => assert!(false),
  }
  kani::cover!(st == STATE_EMPTY);
  kani::cover!(st == STATE_SENT);
  kani::cover!(true, "END");
}

// @obligation id=oneshot.poll_recv props=C06 kind=full tier=quick bound="all states x sender_count<=2; one poll with a counting waker, then the enabling operation"
#[kani::proof]
#[kani::stub(std::thread::current::current, crate::verif_k_stubs::stub_thread_current)]
#[kani::stub(parking_lot::RawMutex::lock_slow, crate::verif_k_stubs::stub_lock_slow)]
#[kani::stub(parking_lot::RawMutex::unlock_slow, crate::verif_k_stubs::stub_unlock_slow)]
#[kani::unwind(4)]
fn ob_oneshot_poll_recv() {
  let (s, st, rd, sc, v) = any_shared_u8();
  kani::assume(!rd); // the receiver is polling, so it is alive
  kani::assume(st != STATE_WRITING);
  let w = waker(1);
  let mut cx = Context::from_waker(&w);
  match s.poll_recv(&mut cx) {
    Poll::Ready(Ok(y)) => { assert!(st == STATE_SENT && y == v); assert!(s.k_state() == STATE_TAKEN); }
    Poll::Ready(Err(RecvError::Disconnected)) => { assert!(st == STATE_CLOSED || (st == STATE_EMPTY && sc == 0) || (st == STATE_TAKEN && sc == 0)); }
    Poll::Pending => {
      assert!((st == STATE_EMPTY && sc > 0) || (st == STATE_TAKEN && sc > 0));
      // Pending => my waker is registered: the operation that enables me invokes it
      assert!(wakes(1) == 0);
      if st == STATE_EMPTY {
        let by_send: bool = kani::any();
        if by_send {
          assert!(s.send(7).is_ok());
          assert!(wakes(1) == 1);
          match s.poll_recv(&mut cx) { Poll::Ready(Ok(y)) => assert!(y == 7), _ => assert!(false) }
          kani::cover!(true);
        } else if sc == 1 {
          s.decrement_senders();
          assert!(wakes(1) == 1);
          match s.poll_recv(&mut cx) { Poll::Ready(Err(RecvError::Disconnected)) => {}, _ => assert!(false) }
          kani::cover!(true);
        }
      }
    }
  }
  assert!(s.wf());
  kani::cover!(true, "END");
}

// ---- C09: the value is dropped exactly once for every teardown order ------------
fn any_shared_d() -> (OneShotShared<D>, usize, bool, usize) {
  let s = OneShotShared::<D>::new();
  let st: usize = kani::any();
  kani::assume(st <= STATE_CLOSED && st != STATE_WRITING);
  let rd: bool = kani::any();
  let sc: usize = kani::any();
  kani::assume(sc <= 2);
  s.state.store(st, Ordering::Relaxed);
  s.receiver_dropped.store(rd, Ordering::Relaxed);
  s.sender_count.store(sc, Ordering::Relaxed);
  if st == STATE_SENT { *s.value_slot.lock() = Some(MaybeUninit::new(D(0))); }
  kani::assume(s.wf());
  (s, st, rd, sc)
}

// @obligation id=oneshot.drop_once props=C09 kind=full tier=quick bound="all states; one of send / try_recv / decrement_senders / receiver close path, then drop of the shared state"
#[kani::proof]
#[kani::stub(std::thread::current::current, crate::verif_k_stubs::stub_thread_current)]
#[kani::stub(parking_lot::RawMutex::lock_slow, crate::verif_k_stubs::stub_lock_slow)]
#[kani::stub(parking_lot::RawMutex::unlock_slow, crate::verif_k_stubs::stub_unlock_slow)]
#[kani::unwind(4)]
fn ob_oneshot_drop_once() {
  let (s, st, _rd, sc) = any_shared_d();
  let had = st == STATE_SENT; // D(0) lives in the slot
  let op: u8 = kani::any();
  kani::assume(op < 4);
  let mut made1 = false;
  match op {
    0 => { made1 = true; if let Err(e) = s.send(D(1)) { drop(e); assert!(drops(1) == 1); } else { assert!(drops(1) == 0); } }
    1 => { if let Ok(d) = s.try_recv() { assert!(d.0 == 0 && drops(0) == 0); drop(d); assert!(drops(0) == 1); } }
    2 => { if sc >= 1 { s.decrement_senders(); } }
    _ => {}
  }
  drop(s);
  if had { assert!(drops(0) == 1); } else { assert!(drops(0) == 0); }
  if made1 { assert!(drops(1) == 1); } else { assert!(drops(1) == 0); }
  kani::cover!(op == 0 && st == STATE_EMPTY);
  kani::cover!(op == 1 && had);
  kani::cover!(op == 2 && had && sc == 1);
  kani::cover!(op == 3 && had);
  kani::cover!(true, "END");
}
