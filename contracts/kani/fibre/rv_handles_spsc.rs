// @unit crate=fibre file=channels/src/spsc/rendezvous.rs
// @needs fibre/stubs.rs
// @needs fibre/rendezvous.rs
// @needs fibre/vshim.rs
// @swap file=channels/src/internal/rendezvous.rs from="use std::collections::VecDeque;" to="#[cfg(kani)] use crate::verif_k_vshim::VecDeque; #[cfg(not(kani))] use std::collections::VecDeque;"
// Handle-level obligations of C04 for the SPSC rendezvous handles (RendezvousSyncSender/Receiver,
// RendezvousAsyncSender/Receiver): every public operation of a handle whose close() returned Ok reports Closed /
// Disconnected, hands the value back and leaves the core untouched; close is idempotent; drop does not decrement again;
// to_sync/to_async carry the flag and the counts.  A peer is parked on the other side (an async future polled once)
// so that an operation that wrongly goes ahead COMPLETES (and is reported) instead of reaching a park stub.
// MEASURED: with std's VecDeque every harness in which a parked SENDER record or a VecDeque receiver store is built
// exceeds 6.5-13 GB of CBMC memory.  When this unit is injected, `std::collections::VecDeque` in
// internal/rendezvous.rs is therefore swapped (cfg(kani) only) for the array-backed stand-in of vshim.rs (an executable
// statement of the deque contract, <= 4 entries); the rendezvous code itself is untouched.
// Side counts are raised to 2 so that closing the handle under test disconnects nothing.  Bounded histories (kind=hist).
use super::*;
use crate::error::*;
use crate::verif_k_stubs::*;
use crate::internal::rendezvous::verif_k_rendezvous::{any_state, st, Mem};
use crate::internal::rendezvous::WAITING;
use std::future::Future;
use std::task::{Context, Poll};

pub(crate) fn stub_instant_now() -> std::time::Instant { unsafe { std::mem::zeroed() } }

fn poll_once<F: Future>(f: std::pin::Pin<&mut F>, w: usize) -> Poll<F::Output> {
  let wk = waker(w);
  let mut cx = Context::from_waker(&wk);
  f.poll(&mut cx)
}

macro_rules! snap { ($sh:expr) => { ($sh.k_ns(), $sh.k_nr(), $sh.k_counts()) }; }

/// closed sender (sync or async, `use_async`) with an async receiver parked: nothing may be handed over
fn gate_sender(use_async: bool) {
  let (atx, arx) = rendezvous_async::<u8>();
  let mut m = Mem::new();
  let _shape = any_state(&*atx.shared, &mut m, 0, 1); // one parked receiver (waker 2), registered directly in the core
  atx.shared.k_set_counts(2, 2);
  let x: u8 = kani::any();
  if use_async {
    assert!(atx.close().is_ok());
    let s0 = snap!(atx.shared);
    assert!(s0 == (0, 1, (1, 2)));
    match atx.try_send(x) { Err(TrySendError::Closed(v)) => assert!(v == x), _ => panic!("closed RendezvousAsyncSender::try_send did not report Closed") }
    { let f = atx.send(x); let mut f = std::pin::pin!(f); match poll_once(f.as_mut(), 0) { Poll::Ready(Err(SendError::Closed)) => {}, _ => panic!("closed RendezvousAsyncSender::send did not resolve to Closed") } }
    assert!(atx.close().is_err());
    assert!(snap!(atx.shared) == s0 && wakes(2) == 0);
    let sh = atx.shared.clone();
    drop(atx);
    assert!(snap!(sh) == s0);
    std::mem::forget(sh);
  } else {
    let tx = atx.to_sync();
    assert!(tx.close().is_ok());
    let s0 = snap!(tx.shared);
    assert!(s0 == (0, 1, (1, 2)));
    match tx.try_send(x) { Err(TrySendError::Closed(v)) => assert!(v == x), _ => panic!("closed RendezvousSyncSender::try_send did not report Closed") }
    match tx.send(x) { Err(SendError::Closed) => {}, _ => panic!("closed RendezvousSyncSender::send did not report Closed") }
    assert!(tx.close().is_err());
    assert!(snap!(tx.shared) == s0 && wakes(2) == 0);
    let sh = tx.shared.clone();
    drop(tx);
    assert!(snap!(sh) == s0);
    std::mem::forget(sh);
  }
  // the parked receiver is still parked and has received nothing
  assert!(st(&m.r_state[0]) == WAITING && m.r_dest[0].is_none() && wakes(2) == 0);
  std::mem::forget(arx);
  kani::cover!(true, "END");
}

/// closed receiver with an async sender parked (holding value a): the value must stay with the sender
fn gate_receiver(use_async: bool) {
  let (atx, arx) = rendezvous_async::<u8>();
  let mut m = Mem::new();
  let shape = any_state(&*atx.shared, &mut m, 1, 0); // one parked sender (waker 0) holding shape.items[0]
  atx.shared.k_set_counts(2, 2);
  if use_async {
    assert!(arx.close().is_ok());
    let s0 = snap!(arx.shared);
    assert!(s0 == (1, 0, (2, 1)));
    assert!(matches!(arx.try_recv(), Err(TryRecvError::Disconnected)));
    { let f = arx.recv(); let mut f = std::pin::pin!(f); assert!(matches!(poll_once(f.as_mut(), 0), Poll::Ready(Err(RecvError::Disconnected)))); }
    assert!(arx.close().is_err());
    assert!(snap!(arx.shared) == s0 && wakes(0) == 0);
    let sh = arx.shared.clone();
    drop(arx);
    assert!(snap!(sh) == s0);
    std::mem::forget(sh);
  } else {
    let rx = arx.to_sync();
    assert!(rx.close().is_ok());
    let s0 = snap!(rx.shared);
    assert!(s0 == (1, 0, (2, 1)));
    assert!(matches!(rx.try_recv(), Err(TryRecvError::Disconnected)));
    assert!(matches!(rx.recv(), Err(RecvError::Disconnected)));
    assert!(matches!(rx.recv_timeout(std::time::Duration::from_millis(5)), Err(RecvErrorTimeout::Disconnected)));
    assert!(rx.close().is_err());
    assert!(snap!(rx.shared) == s0 && wakes(0) == 0);
    let sh = rx.shared.clone();
    drop(rx);
    assert!(snap!(sh) == s0);
    std::mem::forget(sh);
  }
  // the parked sender is still parked with its value
  assert!(st(&m.s_state[0]) == WAITING && m.s_slot[0] == Some(shape.items[0]) && wakes(0) == 0);
  std::mem::forget(atx);
  kani::cover!(true, "END");
}

/// conversions keep the closed flag, the counts and the Arc reference count (both directions, both sides)
fn conv(closed: bool) {
  let (tx, rx) = rendezvous::<u8>();
  tx.shared.k_set_counts(2, 2);
  if closed { assert!(tx.close().is_ok()); assert!(rx.close().is_ok()); }
  let s0 = snap!(tx.shared);
  let rc0 = std::sync::Arc::strong_count(&tx.shared);
  let atx = tx.to_async();
  assert!(atx.closed.load(Ordering::Relaxed) == closed);
  let tx2 = atx.to_sync();
  assert!(tx2.closed.load(Ordering::Relaxed) == closed);
  let arx = rx.to_async();
  assert!(arx.closed.load(Ordering::Relaxed) == closed);
  let rx2 = arx.to_sync();
  assert!(rx2.closed.load(Ordering::Relaxed) == closed);
  assert!(snap!(tx2.shared) == s0 && std::sync::Arc::strong_count(&tx2.shared) == rc0);
  if closed {
    let x: u8 = kani::any();
    match tx2.try_send(x) { Err(TrySendError::Closed(v)) => assert!(v == x), _ => panic!("a closed rendezvous sender was revived by to_async/to_sync") }
    assert!(matches!(rx2.try_recv(), Err(TryRecvError::Disconnected)));
    assert!(tx2.close().is_err() && rx2.close().is_err());
  }
  let sh = tx2.shared.clone();
  drop(tx2);
  drop(rx2);
  // exactly one decrement per handle over its whole life
  assert!(sh.k_counts() == (1, 1));
  std::mem::forget(sh);
  kani::cover!(true, "END");
}

// @obligation id=c04.rv_spsc.gate.SyncSender props=C04,C01 kind=hist tier=quick bound="SPSC rendezvous channel, side counts raised to 2, one async peer parked on the other side; payloads any u8; closed sync sender: try_send, send, second close, drop"
#[kani::proof]
#[kani::stub(std::thread::current::current, crate::verif_k_stubs::stub_thread_current)]
#[kani::stub(parking_lot::RawMutex::lock_slow, crate::verif_k_stubs::stub_lock_slow)]
#[kani::stub(parking_lot::RawMutex::unlock_slow, crate::verif_k_stubs::stub_unlock_slow)]
#[kani::stub(std::thread::park, crate::verif_k_stubs::stub_park)]
#[kani::stub(std::thread::park_timeout, crate::verif_k_stubs::stub_park_timeout)]
#[kani::stub(std::time::Instant::now, stub_instant_now)]
#[kani::unwind(6)]
fn ob_c04_rv_spsc_gate_sync_sender() { gate_sender(false); }

// @obligation id=c04.rv_spsc.gate.AsyncSender props=C04,C01 kind=hist tier=quick bound="SPSC rendezvous channel, side counts raised to 2, one async peer parked on the other side; payloads any u8; closed async sender: try_send, send (polled once), second close, drop"
#[kani::proof]
#[kani::stub(std::thread::current::current, crate::verif_k_stubs::stub_thread_current)]
#[kani::stub(parking_lot::RawMutex::lock_slow, crate::verif_k_stubs::stub_lock_slow)]
#[kani::stub(parking_lot::RawMutex::unlock_slow, crate::verif_k_stubs::stub_unlock_slow)]
#[kani::stub(std::thread::park, crate::verif_k_stubs::stub_park)]
#[kani::stub(std::thread::park_timeout, crate::verif_k_stubs::stub_park_timeout)]
#[kani::stub(std::time::Instant::now, stub_instant_now)]
#[kani::unwind(6)]
fn ob_c04_rv_spsc_gate_async_sender() { gate_sender(true); }

// @obligation id=c04.rv_spsc.gate.SyncReceiver props=C04,C01 kind=hist tier=quick bound="SPSC rendezvous channel, side counts raised to 2, one async peer parked on the other side; payloads any u8; closed sync receiver: try_recv, recv, recv_timeout, second close, drop"
#[kani::proof]
#[kani::stub(std::thread::current::current, crate::verif_k_stubs::stub_thread_current)]
#[kani::stub(parking_lot::RawMutex::lock_slow, crate::verif_k_stubs::stub_lock_slow)]
#[kani::stub(parking_lot::RawMutex::unlock_slow, crate::verif_k_stubs::stub_unlock_slow)]
#[kani::stub(std::thread::park, crate::verif_k_stubs::stub_park)]
#[kani::stub(std::thread::park_timeout, crate::verif_k_stubs::stub_park_timeout)]
#[kani::stub(std::time::Instant::now, stub_instant_now)]
#[kani::unwind(6)]
fn ob_c04_rv_spsc_gate_sync_receiver() { gate_receiver(false); }

// @obligation id=c04.rv_spsc.gate.AsyncReceiver props=C04,C01 kind=hist tier=quick bound="SPSC rendezvous channel, side counts raised to 2, one async peer parked on the other side; payloads any u8; closed async receiver: try_recv, recv (polled once), second close, drop"
#[kani::proof]
#[kani::stub(std::thread::current::current, crate::verif_k_stubs::stub_thread_current)]
#[kani::stub(parking_lot::RawMutex::lock_slow, crate::verif_k_stubs::stub_lock_slow)]
#[kani::stub(parking_lot::RawMutex::unlock_slow, crate::verif_k_stubs::stub_unlock_slow)]
#[kani::stub(std::thread::park, crate::verif_k_stubs::stub_park)]
#[kani::stub(std::thread::park_timeout, crate::verif_k_stubs::stub_park_timeout)]
#[kani::stub(std::time::Instant::now, stub_instant_now)]
#[kani::unwind(6)]
fn ob_c04_rv_spsc_gate_async_receiver() { gate_receiver(true); }

// @obligation id=c04.rv_spsc.conv.closed props=C04,C01,C09 kind=hist tier=quick bound="SPSC rendezvous channel, side counts raised to 2, one async peer parked on the other side; payloads any u8; close both sides, to_async, to_sync, drop"
#[kani::proof]
#[kani::stub(std::thread::current::current, crate::verif_k_stubs::stub_thread_current)]
#[kani::stub(parking_lot::RawMutex::lock_slow, crate::verif_k_stubs::stub_lock_slow)]
#[kani::stub(parking_lot::RawMutex::unlock_slow, crate::verif_k_stubs::stub_unlock_slow)]
#[kani::stub(std::thread::park, crate::verif_k_stubs::stub_park)]
#[kani::stub(std::thread::park_timeout, crate::verif_k_stubs::stub_park_timeout)]
#[kani::stub(std::time::Instant::now, stub_instant_now)]
#[kani::unwind(6)]
fn ob_c04_rv_spsc_conv_closed() { conv(true); }

// @obligation id=c04.rv_spsc.conv.open props=C04,C01,C09 kind=hist tier=quick bound="SPSC rendezvous channel, side counts raised to 2, one async peer parked on the other side; payloads any u8; to_async, to_sync, drop"
#[kani::proof]
#[kani::stub(std::thread::current::current, crate::verif_k_stubs::stub_thread_current)]
#[kani::stub(parking_lot::RawMutex::lock_slow, crate::verif_k_stubs::stub_lock_slow)]
#[kani::stub(parking_lot::RawMutex::unlock_slow, crate::verif_k_stubs::stub_unlock_slow)]
#[kani::stub(std::thread::park, crate::verif_k_stubs::stub_park)]
#[kani::stub(std::thread::park_timeout, crate::verif_k_stubs::stub_park_timeout)]
#[kani::stub(std::time::Instant::now, stub_instant_now)]
#[kani::unwind(6)]
fn ob_c04_rv_spsc_conv_open() { conv(false); }
