// @unit crate=fibre file=channels/src/mpsc/bounded_v3/producer.rs
// @needs fibre/stubs.rs
// @needs fibre/mpsc_shared.rs
// MODULAR obligations for the batch send forms of the bounded MPSC (C01: "batch errors carry sent + unsent equal to
// the input in order; in-place batches keep the unsent tail"; C03: "never silently drop a value").
//
// The callers (Sender::send_batch, send_batch_mut, try_send_batch(_mut), the two async batch futures) are checked
// against the CONTRACTS of their callees, not their bodies (the bodies touch the chunk table, which CBMC cannot
// execute, DESIGN 1.4):
//   claim_run / claim_run_cold(remaining) -> (t, valid, m)  with  valid <= m <= remaining   [proved for all schedules
//                                             by the Verus unit mpsc_admission: obligations mpsc.v.claim_run(_cold)]
// The stub below is that contract made executable: claim_run returns ANY (valid, m) allowed by its contract, with
// consecutive tickets from 0 (a global budget forces progress after 3 claims so that the loops terminate).
// resolve_run is the REAL function: it runs on the stub chunk table (8 slots) and the harness reads the slots back:
// values appear SET in ascending ticket order, overshoot tickets are SKIP, nothing else is touched.
// wait_for_window (parks) returns Ok or Err nondeterministically; waiter registration is stubbed out.
use super::*;
use super::super::{bounded, bounded_async, Receiver, AsyncReceiver};
use crate::error::*;
use crate::verif_k_stubs::*;
use std::future::Future;
use std::task::{Context, Poll};

static mut CURSOR: usize = 0;
static mut CLAIMS: usize = 0;
static mut REGS: usize = 0;

pub(crate) fn stub_claim_run<T>(_s: &Shared<T>, remaining: usize) -> (usize, usize, usize) {
  let m: usize = kani::any();
  let valid: usize = kani::any();
  kani::assume(valid <= m && m <= remaining);
  unsafe {
    CLAIMS += 1;
    if CLAIMS > 3 { kani::assume(valid == remaining && m == remaining); }
    // tickets are handed out consecutively from 0 (chunk 0 of the stub table, STUB_SLOTS slots)
    kani::assume(CURSOR + m <= crate::mpsc::bounded_v3::shared::verif_k_mpsc_shared::STUB_SLOTS);
    let t = CURSOR;
    CURSOR += m;
    if m == 0 { (0, 0, 0) } else { (t, valid, m) }
  }
}
pub(crate) fn stub_register_async_send<T>(_s: &Shared<T>, _prev: Option<u64>, _w: std::task::Waker) -> u64 { unsafe { REGS += 1; } 7 }
pub(crate) fn stub_unregister_async_send<T>(_s: &Shared<T>, _id: u64) {}
pub(crate) fn stub_wait_for_window<T: Send>(_s: &Sender<T>) -> Result<(), ()> { if kani::any() { Ok(()) } else { Err(()) } }

/// number of values published so far (SET slots among the claimed tickets, in ticket order)
fn published(sh: &Shared<u8>) -> usize {
  let mut n = 0; let mut t = 0;
  while t < crate::mpsc::bounded_v3::shared::verif_k_mpsc_shared::STUB_SLOTS {
    if t < unsafe { CURSOR } && sh.k_slot(t).0 == Shared::<u8>::K_SET { n += 1; }
    t += 1;
  }
  n
}
/// the values published so far, read back from the REAL slots in ascending ticket order, are exactly input[..n];
/// every other claimed ticket is a SKIP tombstone (resolved exactly once), unclaimed slots are untouched
fn log_is_prefix(sh: &Shared<u8>, input: &[u8; 3], n: usize) -> bool {
  let mut k = 0; let mut t = 0; let mut ok = true;
  let cur = unsafe { CURSOR };
  while t < crate::mpsc::bounded_v3::shared::verif_k_mpsc_shared::STUB_SLOTS {
    let (st, v) = sh.k_slot(t);
    if t < cur {
      if st == Shared::<u8>::K_SET { if k >= 3 || v != Some(input[k.min(2)]) { ok = false; } k += 1; }
      else if st != Shared::<u8>::K_SKIP { ok = false; }
    } else if st != Shared::<u8>::K_EMPTY { ok = false; }
    t += 1;
  }
  ok && k == n
}
fn is_suffix(v: &Vec<u8>, input: &[u8; 3], from: usize) -> bool {
  if from > 3 || v.len() != 3 - from { return false; }
  let mut ok = true;
  let mut i = 0;
  while i < 3 { if i >= from && v[i - from] != input[i] { ok = false; } i += 1; }
  ok
}
fn mk() -> (Sender<u8>, Receiver<u8>) { let (tx, rx) = bounded::<u8>(1); (tx, rx) }
fn poll_once<F: Future>(f: std::pin::Pin<&mut F>, w: usize) -> Poll<F::Output> {
  let wk = waker(w);
  let mut cx = Context::from_waker(&wk);
  f.poll(&mut cx)
}

/// which: 0 send_batch, 1 send_batch_mut, 2 try_send_batch, 3 try_send_batch_mut
fn step_sync_batch(which: u8) {
  let (tx, rx) = mk();
  let input: [u8; 3] = kani::any();
  let v = vec![input[0], input[1], input[2]];
  match which {
    0 => match tx.send_batch(v) {
      Ok(n) => { assert!(n == 3 && log_is_prefix(&tx.shared, &input, 3)); kani::cover!(true); }
      Err(e) => { assert!(e.sent <= 3 && log_is_prefix(&tx.shared, &input, e.sent) && is_suffix(&e.unsent, &input, e.sent)); kani::cover!(true); }
    },
    1 => { let mut v = v; match tx.send_batch_mut(&mut v) {
      Ok(n) => { assert!(n == 3 && log_is_prefix(&tx.shared, &input, 3) && v.is_empty()); kani::cover!(true); }
      Err(SendError::Closed) => { let sent = published(&tx.shared); assert!(sent <= 3 && log_is_prefix(&tx.shared, &input, sent) && is_suffix(&v, &input, sent)); kani::cover!(true); }
      Err(_) => panic!("unexpected error kind"),
    } },
    2 => match tx.try_send_batch(v) {
      Ok(n) => { assert!(n == 3 && log_is_prefix(&tx.shared, &input, 3)); kani::cover!(true); }
      Err(e) => { assert!(e.sent < 3 && log_is_prefix(&tx.shared, &input, e.sent) && is_suffix(&e.unsent, &input, e.sent)); kani::cover!(true); }
    },
    _ => { let mut v = v; match tx.try_send_batch_mut(&mut v) {
      Ok(n) => { assert!(n <= 3 && log_is_prefix(&tx.shared, &input, n) && is_suffix(&v, &input, n)); kani::cover!(true); }
      Err(SendError::Closed) => { assert!(log_is_prefix(&tx.shared, &input, 0) && is_suffix(&v, &input, 0)); }
      Err(_) => panic!("unexpected error kind"),
    } },
  }
  std::mem::forget(tx); std::mem::forget(rx);
  kani::cover!(true, "END");
}

/// which: 0 AsyncSender::send_batch, 1 AsyncSender::send_batch_mut - polled up to twice, then dropped
fn step_async_batch(which: u8) {
  let (tx, rx) = bounded_async::<u8>(1);
  let input: [u8; 3] = kani::any();
  let mut v = vec![input[0], input[1], input[2]];
  if which == 0 {
    let f = tx.send_batch(v);
    let mut f = std::pin::pin!(f);
    let mut r = poll_once(f.as_mut(), 0);
    if r.is_pending() { r = poll_once(f.as_mut(), 0); }
    match r {
      Poll::Ready(Ok(n)) => { assert!(n == 3 && log_is_prefix(&tx.shared, &input, 3)); kani::cover!(true); }
      Poll::Ready(Err(e)) => { assert!(e.sent <= 3 && log_is_prefix(&tx.shared, &input, e.sent) && is_suffix(&e.unsent, &input, e.sent)); }
      Poll::Pending => { let sent = published(&tx.shared); assert!(sent < 3 && log_is_prefix(&tx.shared, &input, sent)); kani::cover!(true); }
    }
  } else {
    {
      let f = tx.send_batch_mut(&mut v);
      let mut f = std::pin::pin!(f);
      let mut r = poll_once(f.as_mut(), 0);
      if r.is_pending() { r = poll_once(f.as_mut(), 0); }
      match r {
        Poll::Ready(Ok(n)) => { assert!(n == 3 && log_is_prefix(&tx.shared, &input, 3)); kani::cover!(true); }
        Poll::Ready(Err(_)) => { let sent = published(&tx.shared); assert!(log_is_prefix(&tx.shared, &input, sent)); }
        Poll::Pending => { let sent = published(&tx.shared); assert!(sent < 3 && log_is_prefix(&tx.shared, &input, sent)); kani::cover!(true); }
      }
    } // the future is dropped here (cancel safety): the unsent tail must be back in `v`
    let sent = published(&tx.shared);
    assert!(is_suffix(&v, &input, sent));
  }
  std::mem::forget(tx); std::mem::forget(rx);
  kani::cover!(true, "END");
}

// @obligation id=mpsc.producer.batch.Sender.send_batch props=C01,C02,C03 kind=hist tier=probe bound="bounded(1) with one-slot stub chunks; input [a,b,c] any u8; claim_run/resolve_run replaced by their contracts (every (t,valid,m) with valid<=m<=remaining, forced progress after 3 claims); wait_for_window nondeterministic"
#[kani::proof]
#[kani::stub(std::thread::current::current, crate::verif_k_stubs::stub_thread_current)]
#[kani::stub(parking_lot::RawMutex::lock_slow, crate::verif_k_stubs::stub_lock_slow)]
#[kani::stub(parking_lot::RawMutex::unlock_slow, crate::verif_k_stubs::stub_unlock_slow)]
#[kani::stub(crate::mpsc::bounded_v3::shared::Chunk::alloc, crate::mpsc::bounded_v3::shared::verif_k_mpsc_shared::stub_chunk_alloc)]
#[kani::stub(crate::mpsc::bounded_v3::shared::Shared::wake_all_senders, crate::mpsc::bounded_v3::shared::verif_k_mpsc_shared::stub_wake_all)]
#[kani::stub(crate::mpsc::bounded_v3::shared::Shared::wake_all_receivers, crate::mpsc::bounded_v3::shared::verif_k_mpsc_shared::stub_wake_all)]
#[kani::stub(crate::mpsc::bounded_v3::shared::Shared::claim_run, stub_claim_run)]
#[kani::stub(crate::mpsc::bounded_v3::shared::Shared::claim_run_cold, stub_claim_run)]
#[kani::stub(crate::mpsc::bounded_v3::shared::Shared::register_async_send, stub_register_async_send)]
#[kani::stub(crate::mpsc::bounded_v3::shared::Shared::unregister_async_send, stub_unregister_async_send)]
#[kani::stub(Sender::wait_for_window, stub_wait_for_window)]
#[kani::unwind(10)]
fn ob_mpsc_producer_batch_sender_send_batch() { step_sync_batch(0); }

// @obligation id=mpsc.producer.batch.Sender.send_batch_mut props=C01,C02,C03 kind=hist tier=probe bound="bounded(1) with one-slot stub chunks; input [a,b,c] any u8; claim_run/resolve_run replaced by their contracts (every (t,valid,m) with valid<=m<=remaining, forced progress after 3 claims); wait_for_window nondeterministic"
#[kani::proof]
#[kani::stub(std::thread::current::current, crate::verif_k_stubs::stub_thread_current)]
#[kani::stub(parking_lot::RawMutex::lock_slow, crate::verif_k_stubs::stub_lock_slow)]
#[kani::stub(parking_lot::RawMutex::unlock_slow, crate::verif_k_stubs::stub_unlock_slow)]
#[kani::stub(crate::mpsc::bounded_v3::shared::Chunk::alloc, crate::mpsc::bounded_v3::shared::verif_k_mpsc_shared::stub_chunk_alloc)]
#[kani::stub(crate::mpsc::bounded_v3::shared::Shared::wake_all_senders, crate::mpsc::bounded_v3::shared::verif_k_mpsc_shared::stub_wake_all)]
#[kani::stub(crate::mpsc::bounded_v3::shared::Shared::wake_all_receivers, crate::mpsc::bounded_v3::shared::verif_k_mpsc_shared::stub_wake_all)]
#[kani::stub(crate::mpsc::bounded_v3::shared::Shared::claim_run, stub_claim_run)]
#[kani::stub(crate::mpsc::bounded_v3::shared::Shared::claim_run_cold, stub_claim_run)]
#[kani::stub(crate::mpsc::bounded_v3::shared::Shared::register_async_send, stub_register_async_send)]
#[kani::stub(crate::mpsc::bounded_v3::shared::Shared::unregister_async_send, stub_unregister_async_send)]
#[kani::stub(Sender::wait_for_window, stub_wait_for_window)]
#[kani::unwind(10)]
fn ob_mpsc_producer_batch_sender_send_batch_mut() { step_sync_batch(1); }

// @obligation id=mpsc.producer.batch.Sender.try_send_batch props=C01,C02,C03 kind=hist tier=probe bound="bounded(1) with one-slot stub chunks; input [a,b,c] any u8; claim_run/resolve_run replaced by their contracts (every (t,valid,m) with valid<=m<=remaining, forced progress after 3 claims); wait_for_window nondeterministic"
#[kani::proof]
#[kani::stub(std::thread::current::current, crate::verif_k_stubs::stub_thread_current)]
#[kani::stub(parking_lot::RawMutex::lock_slow, crate::verif_k_stubs::stub_lock_slow)]
#[kani::stub(parking_lot::RawMutex::unlock_slow, crate::verif_k_stubs::stub_unlock_slow)]
#[kani::stub(crate::mpsc::bounded_v3::shared::Chunk::alloc, crate::mpsc::bounded_v3::shared::verif_k_mpsc_shared::stub_chunk_alloc)]
#[kani::stub(crate::mpsc::bounded_v3::shared::Shared::wake_all_senders, crate::mpsc::bounded_v3::shared::verif_k_mpsc_shared::stub_wake_all)]
#[kani::stub(crate::mpsc::bounded_v3::shared::Shared::wake_all_receivers, crate::mpsc::bounded_v3::shared::verif_k_mpsc_shared::stub_wake_all)]
#[kani::stub(crate::mpsc::bounded_v3::shared::Shared::claim_run, stub_claim_run)]
#[kani::stub(crate::mpsc::bounded_v3::shared::Shared::claim_run_cold, stub_claim_run)]
#[kani::stub(crate::mpsc::bounded_v3::shared::Shared::register_async_send, stub_register_async_send)]
#[kani::stub(crate::mpsc::bounded_v3::shared::Shared::unregister_async_send, stub_unregister_async_send)]
#[kani::stub(Sender::wait_for_window, stub_wait_for_window)]
#[kani::unwind(10)]
fn ob_mpsc_producer_batch_sender_try_send_batch() { step_sync_batch(2); }

// @obligation id=mpsc.producer.batch.Sender.try_send_batch_mut props=C01,C02,C03 kind=hist tier=probe bound="bounded(1) with one-slot stub chunks; input [a,b,c] any u8; claim_run/resolve_run replaced by their contracts (every (t,valid,m) with valid<=m<=remaining, forced progress after 3 claims); wait_for_window nondeterministic"
#[kani::proof]
#[kani::stub(std::thread::current::current, crate::verif_k_stubs::stub_thread_current)]
#[kani::stub(parking_lot::RawMutex::lock_slow, crate::verif_k_stubs::stub_lock_slow)]
#[kani::stub(parking_lot::RawMutex::unlock_slow, crate::verif_k_stubs::stub_unlock_slow)]
#[kani::stub(crate::mpsc::bounded_v3::shared::Chunk::alloc, crate::mpsc::bounded_v3::shared::verif_k_mpsc_shared::stub_chunk_alloc)]
#[kani::stub(crate::mpsc::bounded_v3::shared::Shared::wake_all_senders, crate::mpsc::bounded_v3::shared::verif_k_mpsc_shared::stub_wake_all)]
#[kani::stub(crate::mpsc::bounded_v3::shared::Shared::wake_all_receivers, crate::mpsc::bounded_v3::shared::verif_k_mpsc_shared::stub_wake_all)]
#[kani::stub(crate::mpsc::bounded_v3::shared::Shared::claim_run, stub_claim_run)]
#[kani::stub(crate::mpsc::bounded_v3::shared::Shared::claim_run_cold, stub_claim_run)]
#[kani::stub(crate::mpsc::bounded_v3::shared::Shared::register_async_send, stub_register_async_send)]
#[kani::stub(crate::mpsc::bounded_v3::shared::Shared::unregister_async_send, stub_unregister_async_send)]
#[kani::stub(Sender::wait_for_window, stub_wait_for_window)]
#[kani::unwind(10)]
fn ob_mpsc_producer_batch_sender_try_send_batch_mut() { step_sync_batch(3); }

// @obligation id=mpsc.producer.batch.AsyncSender.send_batch props=C01,C02,C03,C06 kind=hist tier=probe bound="bounded(1) with one-slot stub chunks; input [a,b,c] any u8; claim_run/resolve_run replaced by their contracts (every (t,valid,m) with valid<=m<=remaining, forced progress after 3 claims); wait_for_window nondeterministic; future polled up to twice, then dropped"
#[kani::proof]
#[kani::stub(std::thread::current::current, crate::verif_k_stubs::stub_thread_current)]
#[kani::stub(parking_lot::RawMutex::lock_slow, crate::verif_k_stubs::stub_lock_slow)]
#[kani::stub(parking_lot::RawMutex::unlock_slow, crate::verif_k_stubs::stub_unlock_slow)]
#[kani::stub(crate::mpsc::bounded_v3::shared::Chunk::alloc, crate::mpsc::bounded_v3::shared::verif_k_mpsc_shared::stub_chunk_alloc)]
#[kani::stub(crate::mpsc::bounded_v3::shared::Shared::wake_all_senders, crate::mpsc::bounded_v3::shared::verif_k_mpsc_shared::stub_wake_all)]
#[kani::stub(crate::mpsc::bounded_v3::shared::Shared::wake_all_receivers, crate::mpsc::bounded_v3::shared::verif_k_mpsc_shared::stub_wake_all)]
#[kani::stub(crate::mpsc::bounded_v3::shared::Shared::claim_run, stub_claim_run)]
#[kani::stub(crate::mpsc::bounded_v3::shared::Shared::claim_run_cold, stub_claim_run)]
#[kani::stub(crate::mpsc::bounded_v3::shared::Shared::register_async_send, stub_register_async_send)]
#[kani::stub(crate::mpsc::bounded_v3::shared::Shared::unregister_async_send, stub_unregister_async_send)]
#[kani::stub(Sender::wait_for_window, stub_wait_for_window)]
#[kani::unwind(10)]
fn ob_mpsc_producer_batch_async_sender_send_batch() { step_async_batch(0); }

// @obligation id=mpsc.producer.batch.AsyncSender.send_batch_mut props=C01,C02,C03,C06 kind=hist tier=probe bound="bounded(1) with one-slot stub chunks; input [a,b,c] any u8; claim_run/resolve_run replaced by their contracts (every (t,valid,m) with valid<=m<=remaining, forced progress after 3 claims); wait_for_window nondeterministic; future polled up to twice, then dropped"
#[kani::proof]
#[kani::stub(std::thread::current::current, crate::verif_k_stubs::stub_thread_current)]
#[kani::stub(parking_lot::RawMutex::lock_slow, crate::verif_k_stubs::stub_lock_slow)]
#[kani::stub(parking_lot::RawMutex::unlock_slow, crate::verif_k_stubs::stub_unlock_slow)]
#[kani::stub(crate::mpsc::bounded_v3::shared::Chunk::alloc, crate::mpsc::bounded_v3::shared::verif_k_mpsc_shared::stub_chunk_alloc)]
#[kani::stub(crate::mpsc::bounded_v3::shared::Shared::wake_all_senders, crate::mpsc::bounded_v3::shared::verif_k_mpsc_shared::stub_wake_all)]
#[kani::stub(crate::mpsc::bounded_v3::shared::Shared::wake_all_receivers, crate::mpsc::bounded_v3::shared::verif_k_mpsc_shared::stub_wake_all)]
#[kani::stub(crate::mpsc::bounded_v3::shared::Shared::claim_run, stub_claim_run)]
#[kani::stub(crate::mpsc::bounded_v3::shared::Shared::claim_run_cold, stub_claim_run)]
#[kani::stub(crate::mpsc::bounded_v3::shared::Shared::register_async_send, stub_register_async_send)]
#[kani::stub(crate::mpsc::bounded_v3::shared::Shared::unregister_async_send, stub_unregister_async_send)]
#[kani::stub(Sender::wait_for_window, stub_wait_for_window)]
#[kani::unwind(10)]
fn ob_mpsc_producer_batch_async_sender_send_batch_mut() { step_async_batch(1); }
