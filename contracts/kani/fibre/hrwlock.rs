// @unit crate=fibre file=channels/src/sync/rwlock.rs
// @needs fibre/stubs.rs
// @needs fibre/waitlist.rs
// Contracts for HybridRwLock: state-word transitions (full domain), unlock/wake policy, writer gate.
use super::*;
use crate::verif_k_stubs::*;
use crate::sync::wait_queue::verif_k_waitlist::*;

impl<T> HybridRwLock<T> {
  pub(crate) fn k_word(&self) -> usize { self.state.load(Ordering::Relaxed) }
  pub(crate) fn k_queue_len(&self) -> usize { self.waiters.k_len() }
}

// @obligation id=lock.rw.try_acquire_write props=C10 kind=full tier=quick bound="every state word (usize)"
#[kani::proof]
#[kani::stub(std::thread::current::current, crate::verif_k_stubs::stub_thread_current)]
#[kani::unwind(3)]
fn ob_lock_rw_try_acquire_write() {
  let l = HybridRwLock::new(0u8);
  let s: usize = kani::any();
  l.state.store(s, Ordering::Relaxed);
  let r = l.try_acquire_write();
  let n = l.k_word();
  // a writer gets in only if there is no writer and no reader; flags are preserved
  assert!(r == (s & (WRITE_LOCKED | READERS) == 0));
  if r { assert!(n == s | WRITE_LOCKED); } else { assert!(n == s); }
  kani::cover!(r);
  let c_readers = !r && s & READERS != 0 && s & WRITE_LOCKED == 0; kani::cover!(c_readers);
  kani::cover!(true, "END");
}

// @obligation id=lock.rw.try_acquire_read props=C10 kind=full tier=quick bound="every state word whose reader count is not saturated"
#[kani::proof]
#[kani::stub(std::thread::current::current, crate::verif_k_stubs::stub_thread_current)]
#[kani::unwind(3)]
fn ob_lock_rw_try_acquire_read() {
  let l = HybridRwLock::new(0u8);
  let s: usize = kani::any();
  kani::assume(s & READERS != READERS); // 2^61 simultaneous readers: the source adds unchecked (listed)
  l.state.store(s, Ordering::Relaxed);
  let r = l.try_acquire_read();
  let n = l.k_word();
  // only-if direction (the CAS is weak: it may fail spuriously under contention; Kani models it strong)
  if r {
    assert!(s & (WRITE_LOCKED | WRITER_PENDING) == 0);
    assert!(n == s + READER_UNIT);
  } else {
    assert!(n == s);
  }
  kani::cover!(r);
  let c_gate = !r && s & WRITER_PENDING != 0 && s & WRITE_LOCKED == 0; kani::cover!(c_gate);
  kani::cover!(true, "END");
}

// @obligation id=lock.rw.try_read_write props=C10 kind=full tier=quick bound="every state word whose reader count is not saturated; try_read and try_write"
#[kani::proof]
#[kani::stub(std::thread::current::current, crate::verif_k_stubs::stub_thread_current)]
#[kani::unwind(3)]
fn ob_lock_rw_try_read_write() {
  let l = HybridRwLock::new(0u8);
  let s: usize = kani::any();
  kani::assume(s & READERS != READERS);
  kani::assume(s & HAS_QUEUED == 0); // guards are forgotten below, no wake path wanted
  l.state.store(s, Ordering::Relaxed);
  let which: bool = kani::any();
  if which {
    let g = l.try_read();
    let ok = g.is_some();
    std::mem::forget(g);
    assert!(ok == (s & (WRITE_LOCKED | WRITER_PENDING) == 0)); // never blocks, never spurious (strong CAS)
    if ok { assert!(l.k_word() == s + READER_UNIT); } else { assert!(l.k_word() == s); }
    kani::cover!(ok);
  } else {
    let g = l.try_write();
    let ok = g.is_some();
    std::mem::forget(g);
    assert!(ok == (s & (WRITE_LOCKED | READERS) == 0));
    if ok { assert!(l.k_word() == s | WRITE_LOCKED); } else { assert!(l.k_word() == s); }
    kani::cover!(ok);
  }
  kani::cover!(true, "END");
}

/// unlock_read / unlock_write from any legal word, queue of `nq` task nodes with symbolic writer flags.
fn step_unlock(nq: usize, write: bool) {
  let l = HybridRwLock::new(0u8);
  let mut store = [task_node(kani::any(), 0), task_node(kani::any(), 1), task_node(kani::any(), 2)];
  let mut ptrs = [ptr::null_mut(); NN];
  let mut i = 0;
  while i < NN { ptrs[i] = &mut store[i] as *mut WaiterNode; i += 1; }
  {
    let mut g = l.waiters.lock();
    let mut i = 0;
    while i < NN { if i < nq { unsafe { g.link_back(ptrs[i]); } } i += 1; }
  }
  let mut nwriters = 0; let mut first_w = NN; let mut i = NN;
  while i > 0 { i -= 1; if i < nq && node_is_writer(ptrs[i]) { nwriters += 1; first_w = i; } }
  let s: usize = kani::any();
  let readers = s & READERS;
  if write {
    kani::assume(s & WRITE_LOCKED != 0 && readers == 0);
  } else {
    kani::assume(s & WRITE_LOCKED == 0 && readers >= READER_UNIT && readers <= 2 * READER_UNIT);
  }
  l.state.store(s, Ordering::Relaxed);
  if write { l.unlock_write(); } else { l.unlock_read(); }
  let n = l.k_word();
  let wake_owed = s & HAS_QUEUED != 0 && (write || readers == READER_UNIT);
  if write { assert!(n & WRITE_LOCKED == 0 && n & READERS == 0); } else { assert!(n & READERS == readers - READER_UNIT && n & WRITE_LOCKED == 0); }
  if wake_owed && nq > 0 {
    if nwriters > 0 {
      // write-preferring: exactly the first queued writer is woken and STAYS linked (gate stays up)
      let mut i = 0;
      while i < NN { if i < nq { assert!(wakes(i) == if i == first_w { 1 } else { 0 }); } i += 1; }
      assert!(node_linked(ptrs[first_w]) && node_state(ptrs[first_w]) == WOKEN);
      assert!(l.k_queue_len() == nq);
      kani::cover!(true);
    } else {
      // only readers queued: all of them are unlinked and woken once; flags recomputed
      let mut i = 0;
      while i < NN { if i < nq { assert!(wakes(i) == 1 && !node_linked(ptrs[i])); } i += 1; }
      assert!(l.k_queue_len() == 0 && n & (HAS_QUEUED | WRITER_PENDING) == 0);
      kani::cover!(true);
    }
  } else {
    let mut i = 0;
    while i < NN { assert!(wakes(i) == 0); i += 1; }
    assert!(l.k_queue_len() == nq);
    kani::cover!(true);
  }
  kani::cover!(true, "END");
}

fn wfut<'a>(l: &'a HybridRwLock<u8>) -> WriteFuture<'a, u8> { WriteFuture { lock: l, node: ptr::null_mut(), done: false } }
fn rfut<'a>(l: &'a HybridRwLock<u8>) -> ReadFuture<'a, u8> { ReadFuture { lock: l, node: ptr::null_mut(), done: false } }

// @obligation id=lock.rw.guards props=C10 kind=hist tier=quick bound="try_read/try_write/guard-drop history of 9 calls"
#[kani::proof]
#[kani::stub(std::thread::current::current, crate::verif_k_stubs::stub_thread_current)]
#[kani::unwind(4)]
fn ob_lock_rw_guards() {
  let l = HybridRwLock::new(7u8);
  let w = l.try_write().unwrap();
  // a write guard never coexists with any other guard
  assert!(l.try_read().is_none() && l.try_write().is_none());
  drop(w);
  assert!(l.k_word() == 0);
  let r1 = l.try_read().unwrap();
  let r2 = l.try_read().unwrap(); // read guards coexist
  assert!(*r1 == 7 && *r2 == 7);
  assert!(l.try_write().is_none());
  drop(r1);
  assert!(l.try_write().is_none());
  drop(r2);
  assert!(l.k_word() == 0);
  assert!(l.try_write().is_some());
  kani::cover!(true, "END");
}

// @obligation id=lock.rw.writer_gate props=C10 kind=hist tier=quick bound="read guard held; a WriteFuture queues; readers are gated until the writer has acquired and released"
#[kani::proof]
#[kani::stub(std::thread::current::current, crate::verif_k_stubs::stub_thread_current)]
#[kani::unwind(6)]
fn ob_lock_rw_writer_gate() {
  let l = HybridRwLock::new(0u8);
  let r = l.try_read().unwrap();
  let w0 = waker(0);
  let mut wf = wfut(&l);
  assert!(Pin::new(&mut wf).poll(&mut Context::from_waker(&w0)).is_pending());
  assert!(l.k_queue_len() == 1 && l.k_word() & WRITER_PENDING != 0 && l.k_word() & HAS_QUEUED != 0);
  // a queued writer is not starved: new readers are refused while it waits
  assert!(l.try_read().is_none());
  drop(r); // last reader leaves: the writer is woken and stays queued (gate up) until it wins
  assert!(wakes(0) == 1);
  assert!(l.try_read().is_none());
  let g = Pin::new(&mut wf).poll(&mut Context::from_waker(&w0));
  assert!(g.is_ready());
  assert!(l.k_queue_len() == 0 && l.k_word() == WRITE_LOCKED);
  assert!(l.try_read().is_none());
  drop(g);
  assert!(l.k_word() == 0 && l.try_read().is_some());
  kani::cover!(true, "END");
}

// @obligation id=lock.rw.writer_gate_async props=C10 kind=hist tier=quick bound="read guard held; a WriteFuture queues; a ReadFuture polled afterwards queues behind it instead of acquiring; it is woken after the writer has released"
#[kani::proof]
#[kani::stub(std::thread::current::current, crate::verif_k_stubs::stub_thread_current)]
#[kani::unwind(6)]
fn ob_lock_rw_writer_gate_async() {
  let l = HybridRwLock::new(0u8);
  let r = l.try_read().unwrap();
  let (w0, w1) = (waker(0), waker(1));
  let mut wf = wfut(&l);
  assert!(Pin::new(&mut wf).poll(&mut Context::from_waker(&w0)).is_pending());
  let word = l.k_word();
  assert!(word & WRITER_PENDING != 0 && word & READERS == READER_UNIT);
  // an async reader arriving now must not overtake the queued writer (any acquisition form honours the gate)
  let mut rf = rfut(&l);
  assert!(Pin::new(&mut rf).poll(&mut Context::from_waker(&w1)).is_pending());
  assert!(l.k_queue_len() == 2 && l.k_word() & READERS == READER_UNIT);
  // ... also when it is polled again while still queued
  assert!(Pin::new(&mut rf).poll(&mut Context::from_waker(&w1)).is_pending());
  assert!(l.k_queue_len() == 2 && l.k_word() & READERS == READER_UNIT);
  drop(r);
  assert!(wakes(0) == 1 && wakes(1) == 0);
  let g = Pin::new(&mut wf).poll(&mut Context::from_waker(&w0));
  assert!(g.is_ready());
  assert!(Pin::new(&mut rf).poll(&mut Context::from_waker(&w1)).is_pending());
  drop(g); // the writer releases: the queued reader is owed (and gets) the wake
  assert!(wakes(1) == 1);
  let rg = Pin::new(&mut rf).poll(&mut Context::from_waker(&w1));
  assert!(rg.is_ready());
  assert!(l.k_queue_len() == 0 && l.k_word() == READER_UNIT);
  drop(rg);
  assert!(l.k_word() == 0);
  kani::cover!(true, "END");
}

/// write guard held; ReadFuture A (waker 0) and WriteFuture B (waker 1) pending; release; drop one.
fn step_future_cancel(drop_writer: bool) {
  let l = HybridRwLock::new(0u8);
  let g = l.try_write().unwrap();
  let (w0, w1) = (waker(0), waker(1));
  let mut a = rfut(&l);
  let mut b = wfut(&l);
  assert!(Pin::new(&mut a).poll(&mut Context::from_waker(&w0)).is_pending());
  assert!(Pin::new(&mut b).poll(&mut Context::from_waker(&w1)).is_pending());
  assert!(l.k_queue_len() == 2);
  drop(g); // wakes the first queued writer (B) only
  assert!(wakes(1) == 1 && wakes(0) == 0);
  if drop_writer {
    drop(b);
    // B consumed the wake and left: the reader must be woken now, the gate must come down
    assert!(wakes(0) == 1);
    assert!(l.k_queue_len() == 0 && l.k_word() & (WRITER_PENDING | HAS_QUEUED) == 0);
    assert!(Pin::new(&mut a).poll(&mut Context::from_waker(&w0)).is_ready());
  } else {
    drop(a);
    assert!(l.k_queue_len() == 1 && wakes(0) == 0);
    assert!(Pin::new(&mut b).poll(&mut Context::from_waker(&w1)).is_ready());
    assert!(l.k_queue_len() == 0);
  }
  kani::cover!(true, "END");
}

// @obligation id=lock.rw.unlock.q0r props=C10 kind=step tier=quick bound="unlock_read from every legal word (flags any; readers 1..2); 0 queued task nodes, writer flags any"
#[kani::proof]
#[kani::stub(std::thread::current::current, crate::verif_k_stubs::stub_thread_current)]
#[kani::unwind(5)]
fn ob_lock_rw_unlock_q0r() { step_unlock(0, false); }

// @obligation id=lock.rw.unlock.q0w props=C10 kind=step tier=quick bound="unlock_write from every legal word (flags any; readers 1..2); 0 queued task nodes, writer flags any"
#[kani::proof]
#[kani::stub(std::thread::current::current, crate::verif_k_stubs::stub_thread_current)]
#[kani::unwind(5)]
fn ob_lock_rw_unlock_q0w() { step_unlock(0, true); }

// @obligation id=lock.rw.unlock.q1r props=C10 kind=step tier=quick bound="unlock_read from every legal word (flags any; readers 1..2); 1 queued task nodes, writer flags any"
#[kani::proof]
#[kani::stub(std::thread::current::current, crate::verif_k_stubs::stub_thread_current)]
#[kani::unwind(5)]
fn ob_lock_rw_unlock_q1r() { step_unlock(1, false); }

// @obligation id=lock.rw.unlock.q1w props=C10 kind=step tier=quick bound="unlock_write from every legal word (flags any; readers 1..2); 1 queued task nodes, writer flags any"
#[kani::proof]
#[kani::stub(std::thread::current::current, crate::verif_k_stubs::stub_thread_current)]
#[kani::unwind(5)]
fn ob_lock_rw_unlock_q1w() { step_unlock(1, true); }

// @obligation id=lock.rw.unlock.q3r props=C10 kind=step tier=quick bound="unlock_read from every legal word (flags any; readers 1..2); 3 queued task nodes, writer flags any"
#[kani::proof]
#[kani::stub(std::thread::current::current, crate::verif_k_stubs::stub_thread_current)]
#[kani::unwind(5)]
fn ob_lock_rw_unlock_q3r() { step_unlock(3, false); }

// @obligation id=lock.rw.unlock.q3w props=C10 kind=step tier=quick bound="unlock_write from every legal word (flags any; readers 1..2); 3 queued task nodes, writer flags any"
#[kani::proof]
#[kani::stub(std::thread::current::current, crate::verif_k_stubs::stub_thread_current)]
#[kani::unwind(5)]
fn ob_lock_rw_unlock_q3w() { step_unlock(3, true); }

// @obligation id=lock.rw.future_cancel.r props=C10 kind=hist tier=quick bound="write guard held; ReadFuture + WriteFuture pending; release; drop the reader"
#[kani::proof]
#[kani::stub(std::thread::current::current, crate::verif_k_stubs::stub_thread_current)]
#[kani::unwind(6)]
fn ob_lock_rw_future_cancel_r() { step_future_cancel(false); }

// @obligation id=lock.rw.future_cancel.w props=C10 kind=hist tier=quick bound="write guard held; ReadFuture + WriteFuture pending; release; drop the woken writer"
#[kani::proof]
#[kani::stub(std::thread::current::current, crate::verif_k_stubs::stub_thread_current)]
#[kani::unwind(6)]
fn ob_lock_rw_future_cancel_w() { step_future_cancel(true); }
