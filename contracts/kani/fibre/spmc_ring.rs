// @unit crate=fibre file=channels/src/spmc/ring_buffer.rs
// @needs fibre/stubs.rs
// Step contracts for the broadcast SPMC ring (`SpmcShared`): one call from EVERY well-formed ring state.
//
// State: capacity c, producer head h (any value up to 2^40: laps far beyond the first wrap included), 1..2 consumer
// cursors t_k with h - c <= t_k <= h (registered in the left-right cursor list), slot i holds the value written at the
// largest index j < h with j % c == i (sequence 2j+1) or is untouched (sequence 2i) if there is none.
// View of consumer k: the values at indices t_k .. h-1, in order.
//   try_send_internal(x): Full(x) iff h - min(t) == c, and then nothing changes (backpressure by the slowest cursor: an
//     unread value is never overwritten); Closed(x) iff no cursor is registered; otherwise slot h % c takes (x, 2h+1),
//     the value it held from the previous lap is dropped exactly once, head = h+1, every other slot and every cursor
//     is untouched.
//   try_recv_internal(cursor k): Ok(the value at index t_k) iff t_k < h, advancing ONLY cursor k by one (each receiver
//     gets every value once, in order); otherwise Empty, or Disconnected once the producer is gone and the view is drained.
// MEASURED: every try_send_internal step dies within 3 min at 24 GB (the slot's `Mutex<Vec<Waker>>` is drained with
// `guard.drain(..).collect()` - Vec::drain shifts the tail with an overlapping copy, the construct that also broke the
// Vec-backed deque stand-in): tier=probe.  The try_recv steps discharge in seconds and are registered under C04.
use super::*;
use crate::verif_k_stubs::*;

const MAXC: usize = 3;
static mut VDROPS: [u8; 8] = [0; 8];
/// payload with an id; every instance (clones included) counts its drop under its id
#[derive(Debug)]
struct V(u8);
impl Clone for V { fn clone(&self) -> Self { V(self.0) } }
impl Drop for V { fn drop(&mut self) { unsafe { VDROPS[self.0 as usize] += 1; } } }
fn vdrops(i: usize) -> u8 { unsafe { VDROPS[i] } }

struct Shape { h: usize, t: [usize; 2], nt: usize, written: [bool; MAXC], seq: [usize; MAXC] }

/// builds the state described in the header; slot i's value has id i (ids 0..c-1); the value to be sent gets id 7
fn any_state(sh: &SpmcShared<V>, tails: &[Arc<AtomicUsize>; 2], cap: usize, nt: usize) -> Shape {
  let h: usize = kani::any();
  kani::assume(h <= 1 << 40);
  let mut t = [0usize; 2];
  let mut k = 0;
  while k < 2 {
    if k < nt {
      let tk: usize = kani::any();
      kani::assume(tk <= h && h - tk <= cap);
      t[k] = tk;
      tails[k].store(tk, Ordering::Relaxed);
      let a = Arc::clone(&tails[k]);
      sh.tails_writer.modify(|list| list.push(Arc::clone(&a)));
    }
    k += 1;
  }
  let mut written = [false; MAXC];
  let mut seq = [0usize; MAXC];
  let mut i = 0;
  while i < MAXC {
    if i < cap {
      if h > i {
        let j = h - 1 - ((h - 1 - i) % cap); // the last index < h that maps to slot i
        unsafe { (*sh.buffer[i].value.get()).write(V(i as u8)); }
        sh.buffer[i].sequence.store(2 * j + 1, Ordering::Relaxed);
        written[i] = true; seq[i] = 2 * j + 1;
      } else { seq[i] = 2 * i; }
    }
    i += 1;
  }
  sh.head.store(h, Ordering::Relaxed);
  Shape { h, t, nt, written, seq }
}
fn slot_state(sh: &SpmcShared<V>, i: usize) -> (usize, Option<u8>) {
  let s = sh.buffer[i].sequence.load(Ordering::Relaxed);
  (s, if s % 2 == 1 { Some(unsafe { (*sh.buffer[i].value.get()).assume_init_ref().0 }) } else { None })
}

fn step_try_send(cap: usize, nt: usize) {
  let sh = SpmcShared::<V>::new(cap);
  let tails = [Arc::new(AtomicUsize::new(0)), Arc::new(AtomicUsize::new(0))];
  let s = any_state(&sh, &tails, cap, nt);
  let min_t = if nt == 0 { 0 } else if nt == 1 || s.t[0] <= s.t[1] { s.t[0] } else { s.t[1] };
  let r = sh.try_send_internal(V(7));
  let h2 = sh.head.load(Ordering::Relaxed);
  let mut k = 0;
  while k < 2 { if k < nt { assert!(tails[k].load(Ordering::Relaxed) == s.t[k]); } k += 1; }
  let target = s.h % cap;
  match r {
    Ok(()) => {
      assert!(nt > 0 && s.h - min_t < cap, "a send was admitted although the slowest receiver is a full lap behind");
      assert!(h2 == s.h + 1);
      assert!(slot_state(&sh, target) == (2 * s.h + 1, Some(7)));
      // the value of the previous lap is dropped exactly once, the new one is not
      assert!(vdrops(7) == 0 && vdrops(target) == if s.written[target] { 1 } else { 0 }, "previous-lap value leaked or dropped twice");
      let c_wrap = s.h >= 2 * cap; kani::cover!(c_wrap);
    }
    Err(TrySendError::Full(v)) => {
      assert!(nt > 0 && s.h - min_t == cap && v.0 == 7 && h2 == s.h);
      assert!(slot_state(&sh, target).0 == s.seq[target] && vdrops(target) == 0);
      std::mem::forget(v);
      kani::cover!(true);
    }
    Err(TrySendError::Closed(v)) => { assert!(nt == 0 && v.0 == 7 && h2 == s.h); std::mem::forget(v); }
    Err(_) => panic!("unexpected error kind"),
  }
  let mut i = 0;
  while i < MAXC { if i < cap && i != target { assert!(slot_state(&sh, i).0 == s.seq[i] && vdrops(i) == 0); } i += 1; }
  std::mem::forget(sh);
  kani::cover!(true, "END");
}

fn step_try_recv(cap: usize, nt: usize, producer_gone: bool) {
  let sh = SpmcShared::<V>::new(cap);
  let tails = [Arc::new(AtomicUsize::new(0)), Arc::new(AtomicUsize::new(0))];
  let s = any_state(&sh, &tails, cap, nt);
  if producer_gone { sh.producer_dropped.store(true, Ordering::Relaxed); }
  let me = 0usize;
  let r = try_recv_internal(&sh, &tails[me]);
  assert!(sh.head.load(Ordering::Relaxed) == s.h);
  if nt == 2 { assert!(tails[1].load(Ordering::Relaxed) == s.t[1], "another receiver's cursor moved"); }
  match r {
    Ok(v) => {
      assert!(s.t[me] < s.h && v.0 == (s.t[me] % cap) as u8 && tails[me].load(Ordering::Relaxed) == s.t[me] + 1);
      std::mem::forget(v);
      kani::cover!(true);
    }
    Err(TryRecvError::Empty) => { assert!(s.t[me] == s.h && !producer_gone && tails[me].load(Ordering::Relaxed) == s.t[me]); }
    Err(TryRecvError::Disconnected) => { assert!(s.t[me] == s.h && producer_gone && tails[me].load(Ordering::Relaxed) == s.t[me]); }
  }
  let mut i = 0;
  while i < MAXC { if i < cap { assert!(slot_state(&sh, i).0 == s.seq[i] && vdrops(i) == 0); } i += 1; }
  std::mem::forget(sh);
  kani::cover!(true, "END");
}

// @obligation id=spmc.try_send.c1t1 props=C07,C03,C09 kind=step tier=probe bound="capacity 1, 1 receiver cursor(s); head any value <= 2^40 (every lap), cursors anywhere in [head-capacity, head]"
#[kani::proof]
#[kani::stub(std::thread::current::current, crate::verif_k_stubs::stub_thread_current)]
#[kani::stub(parking_lot::RawMutex::lock_slow, crate::verif_k_stubs::stub_lock_slow)]
#[kani::stub(parking_lot::RawMutex::unlock_slow, crate::verif_k_stubs::stub_unlock_slow)]
#[kani::unwind(5)]
fn ob_spmc_try_send_c1t1() { step_try_send(1, 1); }

// @obligation id=spmc.try_send.c2t2 props=C07,C03,C09 kind=step tier=probe bound="capacity 2, 2 receiver cursor(s); head any value <= 2^40 (every lap), cursors anywhere in [head-capacity, head]"
#[kani::proof]
#[kani::stub(std::thread::current::current, crate::verif_k_stubs::stub_thread_current)]
#[kani::stub(parking_lot::RawMutex::lock_slow, crate::verif_k_stubs::stub_lock_slow)]
#[kani::stub(parking_lot::RawMutex::unlock_slow, crate::verif_k_stubs::stub_unlock_slow)]
#[kani::unwind(5)]
fn ob_spmc_try_send_c2t2() { step_try_send(2, 2); }

// @obligation id=spmc.try_send.c3t1 props=C07,C03,C09 kind=step tier=probe bound="capacity 3, 1 receiver cursor(s); head any value <= 2^40 (every lap), cursors anywhere in [head-capacity, head]"
#[kani::proof]
#[kani::stub(std::thread::current::current, crate::verif_k_stubs::stub_thread_current)]
#[kani::stub(parking_lot::RawMutex::lock_slow, crate::verif_k_stubs::stub_lock_slow)]
#[kani::stub(parking_lot::RawMutex::unlock_slow, crate::verif_k_stubs::stub_unlock_slow)]
#[kani::unwind(5)]
fn ob_spmc_try_send_c3t1() { step_try_send(3, 1); }

// @obligation id=spmc.try_send.c3t2 props=C07,C03,C09 kind=step tier=probe bound="capacity 3, 2 receiver cursor(s); head any value <= 2^40 (every lap), cursors anywhere in [head-capacity, head]"
#[kani::proof]
#[kani::stub(std::thread::current::current, crate::verif_k_stubs::stub_thread_current)]
#[kani::stub(parking_lot::RawMutex::lock_slow, crate::verif_k_stubs::stub_lock_slow)]
#[kani::stub(parking_lot::RawMutex::unlock_slow, crate::verif_k_stubs::stub_unlock_slow)]
#[kani::unwind(5)]
fn ob_spmc_try_send_c3t2() { step_try_send(3, 2); }

// @obligation id=spmc.try_send.c2t0 props=C07,C03,C09 kind=step tier=probe bound="capacity 2, 0 receiver cursor(s); head any value <= 2^40 (every lap), cursors anywhere in [head-capacity, head]"
#[kani::proof]
#[kani::stub(std::thread::current::current, crate::verif_k_stubs::stub_thread_current)]
#[kani::stub(parking_lot::RawMutex::lock_slow, crate::verif_k_stubs::stub_lock_slow)]
#[kani::stub(parking_lot::RawMutex::unlock_slow, crate::verif_k_stubs::stub_unlock_slow)]
#[kani::unwind(5)]
fn ob_spmc_try_send_c2t0() { step_try_send(2, 0); }

// @obligation id=spmc.try_recv.c1t1 props=C07,C04 kind=step tier=quick bound="capacity 1, 1 receiver cursor(s); head any value <= 2^40, cursors anywhere in [head-capacity, head]; producer alive"
#[kani::proof]
#[kani::stub(std::thread::current::current, crate::verif_k_stubs::stub_thread_current)]
#[kani::stub(parking_lot::RawMutex::lock_slow, crate::verif_k_stubs::stub_lock_slow)]
#[kani::stub(parking_lot::RawMutex::unlock_slow, crate::verif_k_stubs::stub_unlock_slow)]
#[kani::unwind(5)]
fn ob_spmc_try_recv_c1t1() { step_try_recv(1, 1, false); }

// @obligation id=spmc.try_recv.c2t2 props=C07,C04 kind=step tier=quick bound="capacity 2, 2 receiver cursor(s); head any value <= 2^40, cursors anywhere in [head-capacity, head]; producer alive"
#[kani::proof]
#[kani::stub(std::thread::current::current, crate::verif_k_stubs::stub_thread_current)]
#[kani::stub(parking_lot::RawMutex::lock_slow, crate::verif_k_stubs::stub_lock_slow)]
#[kani::stub(parking_lot::RawMutex::unlock_slow, crate::verif_k_stubs::stub_unlock_slow)]
#[kani::unwind(5)]
fn ob_spmc_try_recv_c2t2() { step_try_recv(2, 2, false); }

// @obligation id=spmc.try_recv.c3t2gone props=C07,C04 kind=step tier=quick bound="capacity 3, 2 receiver cursor(s); head any value <= 2^40, cursors anywhere in [head-capacity, head]; producer gone"
#[kani::proof]
#[kani::stub(std::thread::current::current, crate::verif_k_stubs::stub_thread_current)]
#[kani::stub(parking_lot::RawMutex::lock_slow, crate::verif_k_stubs::stub_lock_slow)]
#[kani::stub(parking_lot::RawMutex::unlock_slow, crate::verif_k_stubs::stub_unlock_slow)]
#[kani::unwind(5)]
fn ob_spmc_try_recv_c3t2gone() { step_try_recv(3, 2, true); }

// @obligation id=spmc.try_recv.c3t1 props=C07,C04 kind=step tier=thorough bound="capacity 3, 1 receiver cursor(s); head any value <= 2^40, cursors anywhere in [head-capacity, head]; producer alive"
#[kani::proof]
#[kani::stub(std::thread::current::current, crate::verif_k_stubs::stub_thread_current)]
#[kani::stub(parking_lot::RawMutex::lock_slow, crate::verif_k_stubs::stub_lock_slow)]
#[kani::stub(parking_lot::RawMutex::unlock_slow, crate::verif_k_stubs::stub_unlock_slow)]
#[kani::unwind(5)]
fn ob_spmc_try_recv_c3t1() { step_try_recv(3, 1, false); }
