// @unit crate=fibre file=channels/src/mpsc/bounded_v3/shared.rs
// @needs fibre/stubs.rs
// Bounded MPSC `Shared`: what CBMC can reach.  The chunk table (>= 3 chunks of >= 16 slots) makes any harness
// that executes a send or a dequeue run for > 15 min (DESIGN 1.4), so the harnesses below construct `Shared`
// with `Chunk::alloc` STUBBED to an 8-slot chunk (instead of 16..1024 slots) and touch at most tickets 0..8: they exercise the waiter bookkeeping
// (register / unregister / notify), the side counts and the window arithmetic only.
use super::*;
use crate::verif_k_stubs::*;
// NOTE (measured): swapping the std VecDeque of the waiter registry for the array-backed stand-in of vshim.rs does NOT help
// here (unlike for the topic mailbox): the harnesses still exceed 6.5 GB.  The swap is therefore not applied.

pub(crate) const STUB_SLOTS: usize = 8;
pub(crate) fn stub_chunk_alloc<T>(_chunk_cap: usize) -> *mut Chunk<T> {
  let slots = (0..STUB_SLOTS).map(|_| Slot { state: AtomicU8::new(EMPTY), data: UnsafeCell::new(None) }).collect();
  Box::into_raw(Box::new(Chunk { slots }))
}

impl Shared<u8> {
  /// (state byte, value) of the slot of `ticket` (chunk 0 only: ticket < STUB_SLOTS)
  pub(crate) fn k_slot(&self, ticket: usize) -> (u8, Option<u8>) {
    let chunk = self.table[0].chunk;
    unsafe {
      let slot = &(&(*chunk).slots)[ticket];
      (slot.state.load(Ordering::Relaxed), *slot.data.get())
    }
  }
  pub(crate) fn k_set_slot(&self, ticket: usize, state: u8, v: Option<u8>) {
    let chunk = self.table[0].chunk;
    unsafe {
      let slot = &(&(*chunk).slots)[ticket];
      *slot.data.get() = v;
      slot.state.store(state, Ordering::Relaxed);
    }
  }
  pub(crate) fn k_head(&self) -> (usize, usize, usize, usize) { let h = self.head.lock(); (h.cid, h.idx, h.pos, h.unpublished) }
  pub(crate) const K_SET: u8 = SET;
  pub(crate) const K_SKIP: u8 = SKIP;
  pub(crate) const K_EMPTY: u8 = EMPTY;
}

/// C04's handle-level harnesses are not about wake-ups: the two wake-everybody functions (VecDeque<Thread/Waker>
/// drains; > 6.5 GB of CBMC memory even on empty queues) are cut there.  Stated in the evidence of those obligations.
pub(crate) fn stub_wake_all<T>(_s: &Shared<T>) {}

impl<T> Shared<T> {
  pub(crate) fn k_sender_count(&self) -> usize { self.sender_count.load(Ordering::Relaxed) }
  pub(crate) fn k_receiver_dropped(&self) -> bool { self.receiver_dropped.load(Ordering::Relaxed) }
  pub(crate) fn k_async_send_waiters(&self) -> usize { self.async_send_waiters.lock().queue.len() }
  pub(crate) fn k_async_send_waiter_count(&self) -> usize { self.async_send_waiter_count.load(Ordering::Relaxed) }
  pub(crate) fn k_sync_send_waiters(&self) -> usize { self.sync_send_waiters.lock().queue.len() }
  pub(crate) fn k_async_recv_registered(&self) -> bool { self.async_recv_waiter.lock().is_some() }
  pub(crate) fn k_counters(&self) -> (usize, usize, usize) {
    (self.g_tail.load(Ordering::Relaxed), self.progress.load(Ordering::Relaxed), self.drained.load(Ordering::Relaxed))
  }
  /// make the send window look full / open without touching a slot
  pub(crate) fn k_set_window(&self, g_tail: usize, progress: usize, drained: usize) {
    self.g_tail.store(g_tail, Ordering::Relaxed);
    self.progress.store(progress, Ordering::Relaxed);
    self.drained.store(drained, Ordering::Relaxed);
  }
  pub(crate) fn k_notify_senders(&self, freed: usize) { self.notify_senders(freed) }
  /// (sender_count, receiver_dropped, counters, #async send waiters, #sync send waiters, async recv registered)
  pub(crate) fn k_snap(&self) -> (usize, bool, (usize, usize, usize), usize, usize, bool) {
    (self.k_sender_count(), self.k_receiver_dropped(), self.k_counters(), self.k_async_send_waiters(), self.k_sync_send_waiters(), self.k_async_recv_registered())
  }
}

/// S-WAKE on the sender side of the bounded MPSC, one small scenario per harness (VecDeque::retain and the
/// waker vtable make longer ones exhaust memory):
/// (a) a re-registration with the previous id REPLACES the entry: no duplicate, the published count equals the
///     queue length, and the LATEST waker is the one a notify invokes;
fn step_reregister() {
  let sh = Shared::<u8>::new(1, 1, 1024);
  let id0 = sh.register_async_send(None, waker(0));
  assert!(sh.k_async_send_waiters() == 1 && sh.k_async_send_waiter_count() == 1);
  let _id0b = sh.register_async_send(Some(id0), waker(1)); // re-poll with a different waker
  assert!(sh.k_async_send_waiters() == 1 && sh.k_async_send_waiter_count() == 1);
  sh.k_notify_senders(1);
  assert!(wakes(1) == 1 && wakes(0) == 0);
  assert!(sh.k_async_send_waiters() == 0 && sh.k_async_send_waiter_count() == 0);
  std::mem::forget(sh);
  kani::cover!(true, "END");
}
/// (b) two tasks: a notify serves exactly the OLDEST one, once; the next notify serves the other;
fn step_notify_order() {
  let sh = Shared::<u8>::new(1, 1, 1024);
  let id0 = sh.register_async_send(None, waker(0));
  let id1 = sh.register_async_send(None, waker(1));
  assert!(id0 != id1 && sh.k_async_send_waiters() == 2 && sh.k_async_send_waiter_count() == 2);
  sh.k_notify_senders(1);
  assert!(wakes(0) == 1 && wakes(1) == 0 && sh.k_async_send_waiters() == 1 && sh.k_async_send_waiter_count() == 1);
  sh.k_notify_senders(1);
  assert!(wakes(0) == 1 && wakes(1) == 1 && sh.k_async_send_waiters() == 0 && sh.k_async_send_waiter_count() == 0);
  std::mem::forget(sh);
  kani::cover!(true, "END");
}
/// (c) a cancelled task removes exactly its own entry; the remaining task still gets the next wake.
fn step_unregister() {
  let sh = Shared::<u8>::new(1, 1, 1024);
  let id0 = sh.register_async_send(None, waker(0));
  let _id1 = sh.register_async_send(None, waker(1));
  sh.unregister_async_send(id0);
  assert!(sh.k_async_send_waiters() == 1 && sh.k_async_send_waiter_count() == 1);
  sh.k_notify_senders(1);
  assert!(wakes(1) == 1 && wakes(0) == 0 && sh.k_async_send_waiters() == 0);
  std::mem::forget(sh);
  kani::cover!(true, "END");
}

// @obligation id=mpsc.shared.async_send.reregister props=C06 kind=hist tier=probe bound="Shared::new(1,1,_) with one-slot stub chunks; 1 task, re-registration with a new waker, one notify"
#[kani::proof]
#[kani::stub(std::thread::current::current, crate::verif_k_stubs::stub_thread_current)]
#[kani::stub(parking_lot::RawMutex::lock_slow, crate::verif_k_stubs::stub_lock_slow)]
#[kani::stub(parking_lot::RawMutex::unlock_slow, crate::verif_k_stubs::stub_unlock_slow)]
#[kani::stub(Chunk::alloc, stub_chunk_alloc)]
#[kani::unwind(10)]
fn ob_mpsc_shared_async_send_reregister() { step_reregister(); }

// @obligation id=mpsc.shared.async_send.notify_order props=C06 kind=hist tier=probe bound="Shared::new(1,1,_) with one-slot stub chunks; 2 tasks, two notifies"
#[kani::proof]
#[kani::stub(std::thread::current::current, crate::verif_k_stubs::stub_thread_current)]
#[kani::stub(parking_lot::RawMutex::lock_slow, crate::verif_k_stubs::stub_lock_slow)]
#[kani::stub(parking_lot::RawMutex::unlock_slow, crate::verif_k_stubs::stub_unlock_slow)]
#[kani::stub(Chunk::alloc, stub_chunk_alloc)]
#[kani::unwind(10)]
fn ob_mpsc_shared_async_send_notify_order() { step_notify_order(); }

// @obligation id=mpsc.shared.async_send.unregister props=C06 kind=hist tier=probe bound="Shared::new(1,1,_) with one-slot stub chunks; 2 tasks, the first cancelled, one notify"
#[kani::proof]
#[kani::stub(std::thread::current::current, crate::verif_k_stubs::stub_thread_current)]
#[kani::stub(parking_lot::RawMutex::lock_slow, crate::verif_k_stubs::stub_lock_slow)]
#[kani::stub(parking_lot::RawMutex::unlock_slow, crate::verif_k_stubs::stub_unlock_slow)]
#[kani::stub(Chunk::alloc, stub_chunk_alloc)]
#[kani::unwind(10)]
fn ob_mpsc_shared_async_send_unregister() { step_unregister(); }

/// Window arithmetic of the bounded MPSC against its specification, for EVERY value of the counters (wrap-around
/// included): credit_ok(t) <=> t - progress < cap, window_open <=> g_tail - progress < cap (and the cold twins over
/// `drained`), len = min(g_tail - drained, cap) <= capacity, is_full <=> len >= cap; sequentially claim_run claims
/// exactly min(remaining, free window, run_cap) tickets starting at g_tail and all of them are valid.
/// Each function reads each atomic once, so the equations are also what a concurrent caller gets for the values it read.
fn step_window(cap: usize) {
  let sh = Shared::<u8>::new(cap, 1, 1024);
  let g: usize = kani::any();
  let p: usize = kani::any();
  let d: usize = kani::any();
  sh.k_set_window(g, p, d);
  let t: usize = kani::any();
  assert!(sh.capacity() == cap && sh.cap() == cap);
  assert!(sh.credit_ok(t) == (t.wrapping_sub(p) < cap));
  assert!(sh.credit_ok_cold(t) == (t.wrapping_sub(d) < cap));
  assert!(sh.window_open() == (g.wrapping_sub(p) < cap));
  assert!(sh.window_open_cold() == (g.wrapping_sub(d) < cap));
  let l = sh.len();
  assert!(l <= cap && l == if g.wrapping_sub(d) < cap { g.wrapping_sub(d) } else { cap });
  assert!(sh.is_full() == (l >= cap) && sh.is_empty() == (l == 0));
  assert!(sh.k_counters() == (g, p, d)); // none of the observers writes
  // claim_run / claim_run_cold, sequentially (run_cap = 1 for this construction)
  let rem: usize = kani::any();
  let cold: bool = kani::any();
  let base = if cold { d } else { p };
  kani::assume(base <= usize::MAX - cap); // the source adds `base + cap` unchecked (2^64 messages)
  let (t0, valid, m) = if cold { sh.claim_run_cold(rem) } else { sh.claim_run(rem) };
  let free = cap.saturating_sub(g.wrapping_sub(base));
  let want = if rem == 0 || free == 0 { 0 } else { 1 };
  assert!(m == want && valid <= m);
  if m == 0 {
    assert!((t0, valid) == (0, 0) && sh.k_counters() == (g, p, d));
  } else {
    assert!(t0 == g && sh.k_counters() == (g.wrapping_add(m), p, d));
    // a ticket counted valid lies inside the window of the counter it was checked against
    assert!(valid == 0 || t0.wrapping_sub(base) < cap);
    let c_valid = valid == m; kani::cover!(c_valid);
  }
  std::mem::forget(sh);
  kani::cover!(true, "END");
}

// @obligation id=mpsc.shared.window.cap1 props=C03 kind=full tier=quick bound="capacity 1 (run_cap 1); g_tail, progress, drained, ticket, remaining: every usize value"
#[kani::proof]
#[kani::stub(std::thread::current::current, crate::verif_k_stubs::stub_thread_current)]
#[kani::stub(parking_lot::RawMutex::lock_slow, crate::verif_k_stubs::stub_lock_slow)]
#[kani::stub(parking_lot::RawMutex::unlock_slow, crate::verif_k_stubs::stub_unlock_slow)]
#[kani::stub(Chunk::alloc, stub_chunk_alloc)]
#[kani::unwind(10)]
fn ob_mpsc_shared_window_cap1() { step_window(1); }

// @obligation id=mpsc.shared.window.cap2 props=C03 kind=full tier=quick bound="capacity 2 (run_cap 1); g_tail, progress, drained, ticket, remaining: every usize value"
#[kani::proof]
#[kani::stub(std::thread::current::current, crate::verif_k_stubs::stub_thread_current)]
#[kani::stub(parking_lot::RawMutex::lock_slow, crate::verif_k_stubs::stub_lock_slow)]
#[kani::stub(parking_lot::RawMutex::unlock_slow, crate::verif_k_stubs::stub_unlock_slow)]
#[kani::stub(Chunk::alloc, stub_chunk_alloc)]
#[kani::unwind(10)]
fn ob_mpsc_shared_window_cap2() { step_window(2); }

// @obligation id=mpsc.shared.window.cap3 props=C03 kind=full tier=thorough bound="capacity 3 (run_cap 1); g_tail, progress, drained, ticket, remaining: every usize value"
#[kani::proof]
#[kani::stub(std::thread::current::current, crate::verif_k_stubs::stub_thread_current)]
#[kani::stub(parking_lot::RawMutex::lock_slow, crate::verif_k_stubs::stub_lock_slow)]
#[kani::stub(parking_lot::RawMutex::unlock_slow, crate::verif_k_stubs::stub_unlock_slow)]
#[kani::stub(Chunk::alloc, stub_chunk_alloc)]
#[kani::unwind(10)]
fn ob_mpsc_shared_window_cap3() { step_window(3); }

/// (MEASURED: > 16 GB of CBMC memory, nothing decided in 16 min: tier=probe, selected by no registered command.)
/// Consumer side of the bounded MPSC on the stub table: tickets 0..k (k <= 3) are resolved, each either SET(value)
/// or a SKIP tombstone (symbolic), ticket k is still EMPTY, the cursor stands at ticket 0.
/// deq_run(out, max): `out` receives the SET values in ascending ticket order (per-producer FIFO), at most `max`;
/// every visited slot - SET *and* SKIP - is reset to EMPTY with its value taken (reset-on-drain: a stale state byte
/// would make the consumer walk past a live ticket one table lap later); the cursor, `drained` and the published
/// progress advance by exactly the number of visited tickets; unvisited slots are untouched.
/// deq_once: the first SET value after any leading tombstones, or Empty/InFlight without consuming a value.
fn step_deq(run: bool) {
  let sh = Shared::<u8>::new(3, 3, 1024);
  let k: usize = kani::any();
  kani::assume(k <= 3);
  let is_set: [bool; 4] = kani::any();
  let vals: [u8; 4] = kani::any();
  let mut i = 0;
  while i < 4 { if i < k { sh.k_set_slot(i, if is_set[i] { Shared::<u8>::K_SET } else { Shared::<u8>::K_SKIP }, if is_set[i] { Some(vals[i]) } else { None }); } i += 1; }
  sh.k_set_window(k, 0, 0);
  let mut out: Vec<u8> = Vec::new();
  let max: usize = kani::any();
  kani::assume(max >= 1 && max <= 3);
  let mut got_once: Option<u8> = None;
  let mut empty_once = false;
  let got = if run { sh.deq_run(&mut out, max) } else {
    match sh.deq_once() { Deq::Got(v) => { got_once = Some(v); out.push(v); 1 } Deq::Empty => { empty_once = true; 0 } Deq::InFlight => 0 }
  };
  let want_max = if run { max } else { 1 };
  // reference walk
  let mut visited = 0; let mut n = 0; let mut j = 0;
  while j < 4 {
    if j < k && n < want_max && visited == j {
      if is_set[j] { assert!(out.len() > n && out[n] == vals[j]); n += 1; }
      visited = j + 1;
    }
    j += 1;
  }
  assert!(got == n && out.len() == n);
  let mut t = 0;
  while t < 4 {
    let (st, v) = sh.k_slot(t);
    if t < visited { assert!(st == Shared::<u8>::K_EMPTY && v.is_none()); }
    else if t < k { assert!(st == if is_set[t] { Shared::<u8>::K_SET } else { Shared::<u8>::K_SKIP } && v == if is_set[t] { Some(vals[t]) } else { None }); }
    else { assert!(st == Shared::<u8>::K_EMPTY); }
    t += 1;
  }
  let (cid, idx, pos, unpub) = sh.k_head();
  assert!(cid == 0 && idx == visited && pos == visited);
  let (g, p, d) = sh.k_counters();
  assert!(g == k && d == visited && p + unpub == visited && p <= d);
  if !run { assert!(got_once.is_some() == (n == 1)); if empty_once { assert!(visited == k); } }
  let c_skip = visited > n; kani::cover!(c_skip);
  let c_stop = visited < k; kani::cover!(c_stop);
  std::mem::forget(sh);
  kani::cover!(true, "END");
}

// @obligation id=mpsc.shared.deq_run props=C01,C02,C09 kind=step tier=probe bound="capacity 3, stub table (8-slot chunk 0); 0..=3 resolved tickets each SET(any u8) or SKIP, max in 1..=3; cursor at ticket 0"
#[kani::proof]
#[kani::stub(std::thread::current::current, crate::verif_k_stubs::stub_thread_current)]
#[kani::stub(parking_lot::RawMutex::lock_slow, crate::verif_k_stubs::stub_lock_slow)]
#[kani::stub(parking_lot::RawMutex::unlock_slow, crate::verif_k_stubs::stub_unlock_slow)]
#[kani::stub(Chunk::alloc, stub_chunk_alloc)]
#[kani::unwind(10)]
fn ob_mpsc_shared_deq_run() { step_deq(true); }

// @obligation id=mpsc.shared.deq_once props=C01,C02,C09 kind=step tier=probe bound="capacity 3, stub table (8-slot chunk 0); 0..=3 resolved tickets each SET(any u8) or SKIP; cursor at ticket 0"
#[kani::proof]
#[kani::stub(std::thread::current::current, crate::verif_k_stubs::stub_thread_current)]
#[kani::stub(parking_lot::RawMutex::lock_slow, crate::verif_k_stubs::stub_lock_slow)]
#[kani::stub(parking_lot::RawMutex::unlock_slow, crate::verif_k_stubs::stub_unlock_slow)]
#[kani::stub(Chunk::alloc, stub_chunk_alloc)]
#[kani::unwind(10)]
fn ob_mpsc_shared_deq_once() { step_deq(false); }
