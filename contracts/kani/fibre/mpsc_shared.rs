// @unit crate=fibre file=channels/src/mpsc/bounded_v3/shared.rs
// @needs fibre/stubs.rs
// Bounded MPSC `Shared`: what CBMC can reach.  The chunk table (>= 3 chunks of >= 16 slots) makes any harness
// that executes a send or a dequeue run for > 15 min (DESIGN 1.4), so the harnesses below construct `Shared`
// with `Chunk::alloc` STUBBED to an 8-slot chunk (instead of 16..1024 slots) and touch at most tickets 0..8: they exercise the waiter bookkeeping
// (register / unregister / notify), the side counts and the window arithmetic only.
use super::*;
use crate::verif_k_stubs::*;

pub(crate) const STUB_SLOTS: usize = 8;
pub(crate) fn stub_chunk_alloc<T>(_chunk_cap: usize) -> *mut Chunk<T> {
  let slots = (0..STUB_SLOTS).map(|_| Slot { state: AtomicU8::new(EMPTY), data: UnsafeCell::new(None) }).collect();
  Box::into_raw(Box::new(Chunk { slots }))
}

impl Shared<u8> {
  /// (state byte, value) of the slot of `ticket` (chunk 0 only: ticket < STUB_SLOTS)
  pub(crate) fn k_slot(&self, ticket: usize) -> (u8, Option<u8>) {
    let chunk = self.table[0].chunk;
    unsafe {
      let slot = &(&(*chunk).slots)[ticket];
      (slot.state.load(Ordering::Relaxed), *slot.data.get())
    }
  }
  pub(crate) const K_SET: u8 = SET;
  pub(crate) const K_SKIP: u8 = SKIP;
  pub(crate) const K_EMPTY: u8 = EMPTY;
}

/// C04's handle-level harnesses are not about wake-ups: the two wake-everybody functions (VecDeque<Thread/Waker>
/// drains; > 6.5 GB of CBMC memory even on empty queues) are cut there.  Stated in the evidence of those obligations.
pub(crate) fn stub_wake_all<T>(_s: &Shared<T>) {}

impl<T> Shared<T> {
  pub(crate) fn k_sender_count(&self) -> usize { self.sender_count.load(Ordering::Relaxed) }
  pub(crate) fn k_receiver_dropped(&self) -> bool { self.receiver_dropped.load(Ordering::Relaxed) }
  pub(crate) fn k_async_send_waiters(&self) -> usize { self.async_send_waiters.lock().queue.len() }
  pub(crate) fn k_async_send_waiter_count(&self) -> usize { self.async_send_waiter_count.load(Ordering::Relaxed) }
  pub(crate) fn k_sync_send_waiters(&self) -> usize { self.sync_send_waiters.lock().queue.len() }
  pub(crate) fn k_async_recv_registered(&self) -> bool { self.async_recv_waiter.lock().is_some() }
  pub(crate) fn k_counters(&self) -> (usize, usize, usize) {
    (self.g_tail.load(Ordering::Relaxed), self.progress.load(Ordering::Relaxed), self.drained.load(Ordering::Relaxed))
  }
  /// make the send window look full / open without touching a slot
  pub(crate) fn k_set_window(&self, g_tail: usize, progress: usize, drained: usize) {
    self.g_tail.store(g_tail, Ordering::Relaxed);
    self.progress.store(progress, Ordering::Relaxed);
    self.drained.store(drained, Ordering::Relaxed);
  }
  pub(crate) fn k_notify_senders(&self, freed: usize) { self.notify_senders(freed) }
  /// (sender_count, receiver_dropped, counters, #async send waiters, #sync send waiters, async recv registered)
  pub(crate) fn k_snap(&self) -> (usize, bool, (usize, usize, usize), usize, usize, bool) {
    (self.k_sender_count(), self.k_receiver_dropped(), self.k_counters(), self.k_async_send_waiters(), self.k_sync_send_waiters(), self.k_async_recv_registered())
  }
}

/// S-WAKE on the sender side of the bounded MPSC, one small scenario per harness (VecDeque::retain and the
/// waker vtable make longer ones exhaust memory):
/// (a) a re-registration with the previous id REPLACES the entry: no duplicate, the published count equals the
///     queue length, and the LATEST waker is the one a notify invokes;
fn step_reregister() {
  let sh = Shared::<u8>::new(1, 1, 1024);
  let id0 = sh.register_async_send(None, waker(0));
  assert!(sh.k_async_send_waiters() == 1 && sh.k_async_send_waiter_count() == 1);
  let _id0b = sh.register_async_send(Some(id0), waker(1)); // re-poll with a different waker
  assert!(sh.k_async_send_waiters() == 1 && sh.k_async_send_waiter_count() == 1);
  sh.k_notify_senders(1);
  assert!(wakes(1) == 1 && wakes(0) == 0);
  assert!(sh.k_async_send_waiters() == 0 && sh.k_async_send_waiter_count() == 0);
  std::mem::forget(sh);
  kani::cover!(true, "END");
}
/// (b) two tasks: a notify serves exactly the OLDEST one, once; the next notify serves the other;
fn step_notify_order() {
  let sh = Shared::<u8>::new(1, 1, 1024);
  let id0 = sh.register_async_send(None, waker(0));
  let id1 = sh.register_async_send(None, waker(1));
  assert!(id0 != id1 && sh.k_async_send_waiters() == 2 && sh.k_async_send_waiter_count() == 2);
  sh.k_notify_senders(1);
  assert!(wakes(0) == 1 && wakes(1) == 0 && sh.k_async_send_waiters() == 1 && sh.k_async_send_waiter_count() == 1);
  sh.k_notify_senders(1);
  assert!(wakes(0) == 1 && wakes(1) == 1 && sh.k_async_send_waiters() == 0 && sh.k_async_send_waiter_count() == 0);
  std::mem::forget(sh);
  kani::cover!(true, "END");
}
/// (c) a cancelled task removes exactly its own entry; the remaining task still gets the next wake.
fn step_unregister() {
  let sh = Shared::<u8>::new(1, 1, 1024);
  let id0 = sh.register_async_send(None, waker(0));
  let _id1 = sh.register_async_send(None, waker(1));
  sh.unregister_async_send(id0);
  assert!(sh.k_async_send_waiters() == 1 && sh.k_async_send_waiter_count() == 1);
  sh.k_notify_senders(1);
  assert!(wakes(1) == 1 && wakes(0) == 0 && sh.k_async_send_waiters() == 0);
  std::mem::forget(sh);
  kani::cover!(true, "END");
}

// @obligation id=mpsc.shared.async_send.reregister props=C06 kind=hist tier=thorough bound="Shared::new(1,1,_) with one-slot stub chunks; 1 task, re-registration with a new waker, one notify"
#[kani::proof]
#[kani::stub(std::thread::current::current, crate::verif_k_stubs::stub_thread_current)]
#[kani::stub(parking_lot::RawMutex::lock_slow, crate::verif_k_stubs::stub_lock_slow)]
#[kani::stub(parking_lot::RawMutex::unlock_slow, crate::verif_k_stubs::stub_unlock_slow)]
#[kani::stub(Chunk::alloc, stub_chunk_alloc)]
#[kani::unwind(10)]
fn ob_mpsc_shared_async_send_reregister() { step_reregister(); }

// @obligation id=mpsc.shared.async_send.notify_order props=C06 kind=hist tier=thorough bound="Shared::new(1,1,_) with one-slot stub chunks; 2 tasks, two notifies"
#[kani::proof]
#[kani::stub(std::thread::current::current, crate::verif_k_stubs::stub_thread_current)]
#[kani::stub(parking_lot::RawMutex::lock_slow, crate::verif_k_stubs::stub_lock_slow)]
#[kani::stub(parking_lot::RawMutex::unlock_slow, crate::verif_k_stubs::stub_unlock_slow)]
#[kani::stub(Chunk::alloc, stub_chunk_alloc)]
#[kani::unwind(10)]
fn ob_mpsc_shared_async_send_notify_order() { step_notify_order(); }

// @obligation id=mpsc.shared.async_send.unregister props=C06 kind=hist tier=thorough bound="Shared::new(1,1,_) with one-slot stub chunks; 2 tasks, the first cancelled, one notify"
#[kani::proof]
#[kani::stub(std::thread::current::current, crate::verif_k_stubs::stub_thread_current)]
#[kani::stub(parking_lot::RawMutex::lock_slow, crate::verif_k_stubs::stub_lock_slow)]
#[kani::stub(parking_lot::RawMutex::unlock_slow, crate::verif_k_stubs::stub_unlock_slow)]
#[kani::stub(Chunk::alloc, stub_chunk_alloc)]
#[kani::unwind(10)]
fn ob_mpsc_shared_async_send_unregister() { step_unregister(); }

/// Window arithmetic of the bounded MPSC against its specification, for EVERY value of the counters (wrap-around
/// included): credit_ok(t) <=> t - progress < cap, window_open <=> g_tail - progress < cap (and the cold twins over
/// `drained`), len = min(g_tail - drained, cap) <= capacity, is_full <=> len >= cap; sequentially claim_run claims
/// exactly min(remaining, free window, run_cap) tickets starting at g_tail and all of them are valid.
/// Each function reads each atomic once, so the equations are also what a concurrent caller gets for the values it read.
fn step_window(cap: usize) {
  let sh = Shared::<u8>::new(cap, 1, 1024);
  let g: usize = kani::any();
  let p: usize = kani::any();
  let d: usize = kani::any();
  sh.k_set_window(g, p, d);
  let t: usize = kani::any();
  assert!(sh.capacity() == cap && sh.cap() == cap);
  assert!(sh.credit_ok(t) == (t.wrapping_sub(p) < cap));
  assert!(sh.credit_ok_cold(t) == (t.wrapping_sub(d) < cap));
  assert!(sh.window_open() == (g.wrapping_sub(p) < cap));
  assert!(sh.window_open_cold() == (g.wrapping_sub(d) < cap));
  let l = sh.len();
  assert!(l <= cap && l == if g.wrapping_sub(d) < cap { g.wrapping_sub(d) } else { cap });
  assert!(sh.is_full() == (l >= cap) && sh.is_empty() == (l == 0));
  assert!(sh.k_counters() == (g, p, d)); // none of the observers writes
  // claim_run / claim_run_cold, sequentially (run_cap = 1 for this construction)
  let rem: usize = kani::any();
  let cold: bool = kani::any();
  let base = if cold { d } else { p };
  kani::assume(base <= usize::MAX - cap); // the source adds `base + cap` unchecked (2^64 messages)
  let (t0, valid, m) = if cold { sh.claim_run_cold(rem) } else { sh.claim_run(rem) };
  let free = cap.saturating_sub(g.wrapping_sub(base));
  let want = if rem == 0 || free == 0 { 0 } else { 1 };
  assert!(m == want && valid <= m);
  if m == 0 {
    assert!((t0, valid) == (0, 0) && sh.k_counters() == (g, p, d));
  } else {
    assert!(t0 == g && sh.k_counters() == (g.wrapping_add(m), p, d));
    // a ticket counted valid lies inside the window of the counter it was checked against
    assert!(valid == 0 || t0.wrapping_sub(base) < cap);
    let c_valid = valid == m; kani::cover!(c_valid);
  }
  std::mem::forget(sh);
  kani::cover!(true, "END");
}

// @obligation id=mpsc.shared.window.cap1 props=C03 kind=full tier=quick bound="capacity 1 (run_cap 1); g_tail, progress, drained, ticket, remaining: every usize value"
#[kani::proof]
#[kani::stub(std::thread::current::current, crate::verif_k_stubs::stub_thread_current)]
#[kani::stub(parking_lot::RawMutex::lock_slow, crate::verif_k_stubs::stub_lock_slow)]
#[kani::stub(parking_lot::RawMutex::unlock_slow, crate::verif_k_stubs::stub_unlock_slow)]
#[kani::stub(Chunk::alloc, stub_chunk_alloc)]
#[kani::unwind(10)]
fn ob_mpsc_shared_window_cap1() { step_window(1); }

// @obligation id=mpsc.shared.window.cap2 props=C03 kind=full tier=quick bound="capacity 2 (run_cap 1); g_tail, progress, drained, ticket, remaining: every usize value"
#[kani::proof]
#[kani::stub(std::thread::current::current, crate::verif_k_stubs::stub_thread_current)]
#[kani::stub(parking_lot::RawMutex::lock_slow, crate::verif_k_stubs::stub_lock_slow)]
#[kani::stub(parking_lot::RawMutex::unlock_slow, crate::verif_k_stubs::stub_unlock_slow)]
#[kani::stub(Chunk::alloc, stub_chunk_alloc)]
#[kani::unwind(10)]
fn ob_mpsc_shared_window_cap2() { step_window(2); }

// @obligation id=mpsc.shared.window.cap3 props=C03 kind=full tier=thorough bound="capacity 3 (run_cap 1); g_tail, progress, drained, ticket, remaining: every usize value"
#[kani::proof]
#[kani::stub(std::thread::current::current, crate::verif_k_stubs::stub_thread_current)]
#[kani::stub(parking_lot::RawMutex::lock_slow, crate::verif_k_stubs::stub_lock_slow)]
#[kani::stub(parking_lot::RawMutex::unlock_slow, crate::verif_k_stubs::stub_unlock_slow)]
#[kani::stub(Chunk::alloc, stub_chunk_alloc)]
#[kani::unwind(10)]
fn ob_mpsc_shared_window_cap3() { step_window(3); }
