// @unit crate=fibre file=channels/src/mpsc/unbounded_v3/mod.rs
// @needs fibre/stubs.rs
// Handle-level obligations of C04 for the UNBOUNDED MPSC handles (Sender, AsyncSender, Receiver, AsyncReceiver).
// Bounded histories (kind=hist): construct, clone, close, one call per method on the closed handle.
// MEASURED: the first 128-node slab needs unwind 130 and the harness is killed at 24 GB after 8 min: tier=probe
// (written down, selected by no registered command).  The unbounded handles carry the closed flag across
// conversions by inspection; they have no discharged gate obligation.
use super::*;
use crate::error::*;
use crate::verif_k_stubs::*;
use std::future::Future;
use std::task::{Context, Poll};

fn poll_once<F: Future>(f: std::pin::Pin<&mut F>, w: usize) -> Poll<F::Output> {
  let wk = waker(w);
  let mut cx = Context::from_waker(&wk);
  f.poll(&mut cx)
}
pub(crate) fn stub_instant_now() -> std::time::Instant { unsafe { std::mem::zeroed() } }

/// a closed sender (with a second sender handle alive) rejects every send form and hands the values back; the other
/// handle still delivers; close is idempotent; conversions keep the flag
fn gate_sender() {
  let (mut tx, rx) = channel::<u8>();
  let mut tx2 = tx.clone();
  assert!(tx.close().is_ok());
  assert!(tx.close().is_err());
  let x: u8 = kani::any();
  let y: u8 = kani::any();
  match tx.try_send(x) { Err(TrySendError::Closed(v)) => assert!(v == x), _ => panic!("closed unbounded Sender::try_send did not report Closed") }
  match tx.send(x) { Err(SendError::Closed) => {}, _ => panic!("closed unbounded Sender::send did not report Closed") }
  match tx.try_send_batch(vec![x, y]) { Err(e) => assert!(e.sent == 0 && e.unsent.len() == 2 && e.unsent[0] == x && e.unsent[1] == y), _ => panic!("closed unbounded Sender::try_send_batch did not fail") }
  match tx.send_batch(vec![x, y]) { Err(e) => assert!(e.sent == 0 && e.unsent.len() == 2 && e.unsent[0] == x && e.unsent[1] == y), _ => panic!("closed unbounded Sender::send_batch did not fail") }
  { let mut v = vec![x, y]; match tx.try_send_batch_mut(&mut v) { Err(SendError::Closed) => assert!(v.len() == 2 && v[0] == x && v[1] == y), _ => panic!("closed unbounded Sender::try_send_batch_mut did not report Closed") } }
  { let mut v = vec![x, y]; match tx.send_batch_mut(&mut v) { Err(SendError::Closed) => assert!(v.len() == 2 && v[0] == x && v[1] == y), _ => panic!("closed unbounded Sender::send_batch_mut did not report Closed") } }
  assert!(rx.len() == 0);
  let mut atx = tx.to_async();
  assert!(atx.closed);
  match atx.try_send(x) { Err(TrySendError::Closed(v)) => assert!(v == x), _ => panic!("to_async revived a closed unbounded Sender") }
  assert!(atx.close().is_err());
  drop(atx);
  // nothing is disconnected while the other handle lives: it delivers, the receiver sees Empty afterwards
  assert!(tx2.try_send(y).is_ok());
  assert!(rx.try_recv() == Ok(y));
  assert!(matches!(rx.try_recv(), Err(TryRecvError::Empty)));
  std::mem::forget(tx2); std::mem::forget(rx);
  kani::cover!(true, "END");
}

// @obligation id=c04.unb_mpsc.gate.Sender props=C04,C01 kind=hist tier=probe bound="unbounded mpsc, two sender handles, one closed: every send form once, to_async, then one delivery through the other handle; payloads any u8"
#[kani::proof]
#[kani::stub(std::thread::current::current, crate::verif_k_stubs::stub_thread_current)]
#[kani::stub(parking_lot::RawMutex::lock_slow, crate::verif_k_stubs::stub_lock_slow)]
#[kani::stub(parking_lot::RawMutex::unlock_slow, crate::verif_k_stubs::stub_unlock_slow)]
#[kani::stub(std::thread::park, crate::verif_k_stubs::stub_park)]
#[kani::stub(std::thread::park_timeout, crate::verif_k_stubs::stub_park_timeout)]
#[kani::stub(std::time::Instant::now, stub_instant_now)]
#[kani::unwind(130)]
fn ob_c04_unb_mpsc_gate_sender() { gate_sender(); }
