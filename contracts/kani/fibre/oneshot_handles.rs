// @unit crate=fibre file=channels/src/oneshot/mod.rs
// @needs fibre/stubs.rs
// @needs fibre/oneshot_core.rs
// Handle-level obligations of C04 for oneshot::{Sender, Receiver}: per-handle closed flag, idempotent close, sender
// clones, "a closed handle rejects further operations", drain-then-Disconnected.  Bounded histories (kind=hist).
use super::*;
use crate::error::*;
use crate::verif_k_stubs::*;
use std::future::Future;
use std::task::{Context, Poll};

fn poll_once<F: Future>(f: std::pin::Pin<&mut F>, w: usize) -> Poll<F::Output> {
  let wk = waker(w);
  let mut cx = Context::from_waker(&wk);
  f.poll(&mut cx)
}
fn snap<T>(sh: &OneShotShared<T>) -> (usize, usize, bool, bool) {
  (sh.k_state(), sh.sender_count.load(Ordering::Relaxed), sh.receiver_dropped.load(Ordering::Relaxed), sh.k_slot_some())
}

/// a closed sender clone: send hands the value back and changes nothing; the other clone still works; the last one
/// going away makes the receiver see Disconnected (never a value)
fn gate_sender() {
  let (tx, rx) = oneshot::<u8>();
  let tx2 = tx.clone();
  assert!(tx.close().is_ok());
  assert!(tx.close().is_err());
  let s0 = snap(&rx.shared);
  assert!(s0.1 == 1 && !s0.2);
  let x: u8 = kani::any();
  match tx.send(x) { Err(TrySendError::Closed(v)) => assert!(v == x), _ => panic!("closed oneshot Sender::send did not report Closed") }
  assert!(snap(&rx.shared) == s0); // consumed handle dropped: no second decrement
  assert!(matches!(rx.try_recv(), Err(TryRecvError::Empty)));
  let which: bool = kani::any();
  if which {
    let y: u8 = kani::any();
    assert!(tx2.send(y).is_ok());
    assert!(rx.try_recv() == Ok(y));
    // after the single value was taken no value is ever obtained again (the code answers Empty here, not
    // Disconnected; C04 does not demand that Disconnected is eventually observed, only that no value follows it)
    assert!(rx.try_recv().is_err());
  } else {
    drop(tx2);
    assert!(matches!(rx.try_recv(), Err(TryRecvError::Disconnected)));
    { let f = rx.recv(); let mut f = std::pin::pin!(f); assert!(matches!(poll_once(f.as_mut(), 0), Poll::Ready(Err(RecvError::Disconnected)))); }
  }
  std::mem::forget(rx);
  kani::cover!(true, "END");
}

/// a closed receiver: try_recv / recv report Disconnected even though a value was sent; senders are told Closed
fn gate_receiver(sent_first: bool) {
  let (tx, rx) = oneshot::<u8>();
  let tx2 = tx.clone();
  let a: u8 = kani::any();
  if sent_first { assert!(tx.send(a).is_ok()); } else { std::mem::forget(tx); }
  assert!(rx.close().is_ok());
  assert!(rx.close().is_err());
  let s0 = snap(&rx.shared);
  assert!(s0.2);
  assert!(matches!(rx.try_recv(), Err(TryRecvError::Disconnected)));
  { let f = rx.recv(); let mut f = std::pin::pin!(f); assert!(matches!(poll_once(f.as_mut(), 0), Poll::Ready(Err(RecvError::Disconnected)))); }
  assert!(snap(&rx.shared) == s0 && wakes(0) == 0);
  let x: u8 = kani::any();
  match tx2.send(x) { Err(TrySendError::Closed(v)) | Err(TrySendError::Sent(v)) => assert!(v == x), _ => panic!("send after the receiver was closed succeeded") }
  let sh = rx.shared.clone();
  drop(rx);
  assert!(sh.receiver_dropped.load(Ordering::Relaxed));
  std::mem::forget(sh);
  kani::cover!(true, "END");
}

// @obligation id=c04.oneshot.gate.Sender props=C04,C01 kind=hist tier=quick bound="oneshot with two sender clones; close one, send on it, then the other clone sends or is dropped; payloads any u8"
#[kani::proof]
#[kani::stub(std::thread::current::current, crate::verif_k_stubs::stub_thread_current)]
#[kani::stub(parking_lot::RawMutex::lock_slow, crate::verif_k_stubs::stub_lock_slow)]
#[kani::stub(parking_lot::RawMutex::unlock_slow, crate::verif_k_stubs::stub_unlock_slow)]
#[kani::unwind(4)]
fn ob_c04_oneshot_gate_sender() { gate_sender(); }

// @obligation id=c04.oneshot.gate.Receiver.sent props=C04,C01,C09 kind=hist tier=quick bound="oneshot, value sent, receiver closed: try_recv, recv (polled once), second close, late send"
#[kani::proof]
#[kani::stub(std::thread::current::current, crate::verif_k_stubs::stub_thread_current)]
#[kani::stub(parking_lot::RawMutex::lock_slow, crate::verif_k_stubs::stub_lock_slow)]
#[kani::stub(parking_lot::RawMutex::unlock_slow, crate::verif_k_stubs::stub_unlock_slow)]
#[kani::unwind(4)]
fn ob_c04_oneshot_gate_receiver_sent() { gate_receiver(true); }

// @obligation id=c04.oneshot.gate.Receiver.empty props=C04,C01 kind=hist tier=quick bound="oneshot, nothing sent, receiver closed: try_recv, recv (polled once), second close, late send"
#[kani::proof]
#[kani::stub(std::thread::current::current, crate::verif_k_stubs::stub_thread_current)]
#[kani::stub(parking_lot::RawMutex::lock_slow, crate::verif_k_stubs::stub_lock_slow)]
#[kani::stub(parking_lot::RawMutex::unlock_slow, crate::verif_k_stubs::stub_unlock_slow)]
#[kani::unwind(4)]
fn ob_c04_oneshot_gate_receiver_empty() { gate_receiver(false); }
