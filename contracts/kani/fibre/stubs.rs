// @unit crate=fibre file=channels/src/lib.rs
// Standard stub set + counting waker + drop-counting payload, shared by all fibre units.
//
// Kani 0.68 has an internal compiler error when std::thread::current() or parking_lot's
// slow paths are *reachable* (measured, DESIGN.md 1.4).  In a single-threaded harness those
// paths are dead (uncontended locks take the inline CAS fast path); the stubs only keep them
// out of the reachability set.  A harness that did reach one would become vacuous from that
// point on, which the trailing kani::cover!(true) of every harness detects.
#![allow(dead_code)]
use std::task::{RawWaker, RawWakerVTable, Waker};

pub(crate) fn stub_thread_current() -> std::thread::Thread {
  kani::assume(false);
  loop {}
}
pub(crate) fn stub_lock_slow(_m: &parking_lot::RawMutex, _timeout: Option<std::time::Instant>) -> bool {
  kani::assume(false);
  true
}
pub(crate) fn stub_unlock_slow(_m: &parking_lot::RawMutex, _force_fair: bool) {
  kani::assume(false);
}
pub(crate) fn stub_park() {
  // a blocking path must not be reached by the harnesses that install this stub
  panic!("blocking path reached: thread::park");
}
pub(crate) fn stub_park_timeout(_d: std::time::Duration) {
  panic!("blocking path reached: thread::park_timeout");
}
pub(crate) fn stub_yield_now() {}

// ---- counting wakers -------------------------------------------------------
pub(crate) static mut WAKES: [u8; 4] = [0; 4];
pub(crate) static mut WAKER_CLONES: [u8; 4] = [0; 4];
pub(crate) static mut WAKER_DROPS: [u8; 4] = [0; 4];

unsafe fn w_clone(p: *const ()) -> RawWaker {
  let i = p as usize;
  unsafe { WAKER_CLONES[i] += 1; }
  RawWaker::new(p, &VT)
}
unsafe fn w_wake(p: *const ()) {
  let i = p as usize;
  unsafe { WAKES[i] += 1; WAKER_DROPS[i] += 1; }
}
unsafe fn w_wake_by_ref(p: *const ()) {
  let i = p as usize;
  unsafe { WAKES[i] += 1; }
}
unsafe fn w_drop(p: *const ()) {
  let i = p as usize;
  unsafe { WAKER_DROPS[i] += 1; }
}
static VT: RawWakerVTable = RawWakerVTable::new(w_clone, w_wake, w_wake_by_ref, w_drop);

/// Waker number `i` (0..4); its data pointer is the integer i, wakes are counted in WAKES[i].
pub(crate) fn waker(i: usize) -> Waker {
  unsafe { Waker::from_raw(RawWaker::new(i as *const (), &VT)) }
}
pub(crate) fn wakes(i: usize) -> u8 {
  unsafe { WAKES[i] }
}
/// live clones of waker i held by somebody else (clones - drops), not counting the original
pub(crate) fn waker_refs(i: usize) -> i32 {
  unsafe { WAKER_CLONES[i] as i32 - WAKER_DROPS[i] as i32 }
}

// ---- drop-counting payload ---------------------------------------------------
pub(crate) static mut DROPS: [u8; 8] = [0; 8];
pub(crate) struct D(pub u8);
impl Drop for D {
  fn drop(&mut self) {
    unsafe { DROPS[self.0 as usize] += 1; }
  }
}
pub(crate) fn drops(i: usize) -> u8 {
  unsafe { DROPS[i] }
}

