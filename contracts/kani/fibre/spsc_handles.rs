// @unit crate=fibre file=channels/src/spsc/mod.rs
// @needs fibre/stubs.rs
// Handle-level obligations of C04 for the SPSC handles (BoundedSyncSender/Receiver, BoundedAsyncSender/Receiver):
// every public operation of a handle whose close() returned Ok reports Closed / Disconnected, hands the value(s) back
// and leaves the channel untouched; close is idempotent; drop does not close again; conversions carry the flag.
// Bounded histories (kind=hist): construct, close, one call per method.  Handles not under test are leaked.
use super::*;
use super::shared::SpscShared;
use crate::error::*;
use crate::verif_k_stubs::*;
use crate::internal::sync::Ordering;
use std::future::Future;
use std::task::{Context, Poll};

pub(crate) fn stub_instant_now() -> std::time::Instant { unsafe { std::mem::zeroed() } }

fn poll_once<F: Future>(f: std::pin::Pin<&mut F>, w: usize) -> Poll<F::Output> {
  let wk = waker(w);
  let mut cx = Context::from_waker(&wk);
  f.poll(&mut cx)
}

type Snap = (usize, usize, usize, bool, bool);
fn snap<T>(sh: &SpscShared<T>) -> Snap {
  (sh.len(), sh.sender_count.load(Ordering::Relaxed), sh.receiver_count.load(Ordering::Relaxed),
   sh.producer_dropped.load(Ordering::Relaxed), sh.consumer_dropped.load(Ordering::Relaxed))
}

fn gate_sync_sender() {
  // capacity 4: a send form that wrongly goes ahead completes (and is reported) instead of reaching the park stub
  let (tx, rx) = bounded_sync::<u8>(4);
  let a: u8 = kani::any();
  assert!(tx.try_send(a).is_ok());
  assert!(tx.close().is_ok());
  let s0 = snap(&rx.shared);
  assert!(s0 == (1, 0, 1, true, false));
  let x: u8 = kani::any();
  let y: u8 = kani::any();
  match tx.try_send(x) { Err(TrySendError::Closed(v)) => assert!(v == x), _ => panic!("closed BoundedSyncSender::try_send did not report Closed") }
  match tx.send(x) { Err(SendError::Closed) => {}, _ => panic!("closed BoundedSyncSender::send did not report Closed") }
  match tx.try_send_batch(vec![x, y]) {
    Err(e) => { assert!(e.sent == 0 && e.unsent.len() == 2 && e.unsent[0] == x && e.unsent[1] == y); assert!(matches!(e.reason, BatchSendErrorReason::Closed)); }
    _ => panic!("closed BoundedSyncSender::try_send_batch did not fail") }
  match tx.send_batch(vec![x, y]) {
    Err(e) => { assert!(e.sent == 0 && e.unsent.len() == 2 && e.unsent[0] == x && e.unsent[1] == y); }
    _ => panic!("closed BoundedSyncSender::send_batch did not fail") }
  { let mut v = vec![x, y]; match tx.try_send_batch_mut(&mut v) { Err(SendError::Closed) => assert!(v.len() == 2 && v[0] == x && v[1] == y), _ => panic!("closed BoundedSyncSender::try_send_batch_mut did not report Closed") } }
  { let mut v = vec![x, y]; match tx.send_batch_mut(&mut v) { Err(SendError::Closed) => assert!(v.len() == 2 && v[0] == x && v[1] == y), _ => panic!("closed BoundedSyncSender::send_batch_mut did not report Closed") } }
  assert!(tx.close().is_err());
  assert!(snap(&rx.shared) == s0);
  drop(tx);
  assert!(snap(&rx.shared) == s0);
  // the receiver drains what was sent before the close, then sees Disconnected, and keeps seeing it
  assert!(rx.try_recv() == Ok(a));
  assert!(matches!(rx.try_recv(), Err(TryRecvError::Disconnected)));
  assert!(matches!(rx.try_recv(), Err(TryRecvError::Disconnected)));
  std::mem::forget(rx);
  kani::cover!(true, "END");
}

fn gate_sync_receiver() {
  let (tx, mut rx) = bounded_sync::<u8>(2);
  let a: u8 = kani::any();
  assert!(tx.try_send(a).is_ok());
  assert!(rx.close().is_ok());
  let s0 = snap(&tx.shared);
  assert!(s0 == (1, 1, 0, false, true));
  assert!(matches!(rx.try_recv(), Err(TryRecvError::Disconnected)));
  assert!(matches!(rx.recv(), Err(RecvError::Disconnected)));
  assert!(matches!(rx.try_recv_batch(2), Err(TryRecvError::Disconnected)));
  { let mut out = Vec::new(); assert!(matches!(rx.try_recv_batch_mut(&mut out, 2), Err(TryRecvError::Disconnected))); assert!(out.is_empty()); }
  assert!(matches!(rx.recv_batch(2), Err(RecvError::Disconnected)));
  { let mut out = Vec::new(); assert!(matches!(rx.recv_batch_mut(&mut out, 2), Err(RecvError::Disconnected))); assert!(out.is_empty()); }
  assert!(matches!(rx.recv_timeout(std::time::Duration::from_millis(5)), Err(RecvErrorTimeout::Disconnected)));
  assert!(rx.close().is_err());
  assert!(snap(&tx.shared) == s0);
  drop(rx);
  assert!(snap(&tx.shared) == s0);
  // the sender is told Closed and gets its value back
  let x: u8 = kani::any();
  match tx.try_send(x) { Err(TrySendError::Closed(v)) => assert!(v == x), _ => panic!("try_send after the receiver was closed") }
  std::mem::forget(tx);
  kani::cover!(true, "END");
}

fn gate_async_sender() {
  let (mut tx, rx) = bounded_async::<u8>(4);
  let a: u8 = kani::any();
  assert!(tx.try_send(a).is_ok());
  assert!(tx.close().is_ok());
  let s0 = snap(&rx.shared);
  assert!(s0 == (1, 0, 1, true, false));
  let x: u8 = kani::any();
  let y: u8 = kani::any();
  match tx.try_send(x) { Err(TrySendError::Closed(v)) => assert!(v == x), _ => panic!("closed BoundedAsyncSender::try_send did not report Closed") }
  { let f = tx.send(x); let mut f = std::pin::pin!(f); match poll_once(f.as_mut(), 0) { Poll::Ready(Err(SendError::Closed)) => {}, _ => panic!("closed BoundedAsyncSender::send did not resolve to Closed") } }
  match tx.try_send_batch(vec![x, y]) {
    Err(e) => { assert!(e.sent == 0 && e.unsent.len() == 2 && e.unsent[0] == x && e.unsent[1] == y); assert!(matches!(e.reason, BatchSendErrorReason::Closed)); }
    _ => panic!("closed BoundedAsyncSender::try_send_batch did not fail") }
  { let f = tx.send_batch(vec![x, y]); let mut f = std::pin::pin!(f); match poll_once(f.as_mut(), 0) {
      Poll::Ready(Err(e)) => assert!(e.sent == 0 && e.unsent.len() == 2 && e.unsent[0] == x && e.unsent[1] == y),
      _ => panic!("closed BoundedAsyncSender::send_batch did not resolve to an error") } }
  { let mut v = vec![x, y]; match tx.try_send_batch_mut(&mut v) { Err(SendError::Closed) => assert!(v.len() == 2 && v[0] == x && v[1] == y), _ => panic!("closed BoundedAsyncSender::try_send_batch_mut did not report Closed") } }
  { let mut v = vec![x, y]; { let f = tx.send_batch_mut(&mut v); let mut f = std::pin::pin!(f); match poll_once(f.as_mut(), 0) {
      Poll::Ready(Err(SendError::Closed)) => {}, _ => panic!("closed BoundedAsyncSender::send_batch_mut did not resolve to Closed") } } assert!(v.len() == 2 && v[0] == x && v[1] == y); }
  assert!(tx.close().is_err());
  assert!(snap(&rx.shared) == s0 && wakes(0) == 0);
  drop(tx);
  assert!(snap(&rx.shared) == s0);
  std::mem::forget(rx);
  kani::cover!(true, "END");
}

fn gate_async_receiver() {
  let (mut tx, mut rx) = bounded_async::<u8>(2);
  let a: u8 = kani::any();
  assert!(tx.try_send(a).is_ok());
  assert!(rx.close().is_ok());
  let s0 = snap(&tx.shared);
  assert!(s0 == (1, 1, 0, false, true));
  assert!(matches!(rx.try_recv(), Err(TryRecvError::Disconnected)));
  { let f = rx.recv(); let mut f = std::pin::pin!(f); assert!(matches!(poll_once(f.as_mut(), 0), Poll::Ready(Err(RecvError::Disconnected)))); }
  assert!(matches!(rx.try_recv_batch(2), Err(TryRecvError::Disconnected)));
  { let mut out = Vec::new(); assert!(matches!(rx.try_recv_batch_mut(&mut out, 2), Err(TryRecvError::Disconnected))); assert!(out.is_empty()); }
  { let f = rx.recv_batch(2); let mut f = std::pin::pin!(f); assert!(matches!(poll_once(f.as_mut(), 0), Poll::Ready(Err(RecvError::Disconnected)))); }
  { let mut out = Vec::new(); { let f = rx.recv_batch_mut(&mut out, 2); let mut f = std::pin::pin!(f); assert!(matches!(poll_once(f.as_mut(), 0), Poll::Ready(Err(RecvError::Disconnected)))); } assert!(out.is_empty()); }
  assert!(rx.close().is_err());
  assert!(snap(&tx.shared) == s0 && wakes(0) == 0);
  drop(rx);
  assert!(snap(&tx.shared) == s0);
  std::mem::forget(tx);
  kani::cover!(true, "END");
}

/// conversions keep the closed flag (both directions, both sides), the counts and the Arc reference count
fn conv(closed: bool) {
  let (tx, rx) = bounded_sync::<u8>(2);
  let a: u8 = kani::any();
  assert!(tx.try_send(a).is_ok());
  if closed { assert!(tx.close().is_ok()); }
  let s0 = snap(&rx.shared);
  let rc0 = std::sync::Arc::strong_count(&rx.shared);
  let mut atx = tx.to_async();
  assert!(atx.closed.load(Ordering::Relaxed) == closed && snap(&rx.shared) == s0 && std::sync::Arc::strong_count(&rx.shared) == rc0);
  if closed {
    let x: u8 = kani::any();
    match atx.try_send(x) { Err(TrySendError::Closed(v)) => assert!(v == x), _ => panic!("to_async revived a closed BoundedSyncSender") }
    assert!(atx.close().is_err());
  }
  let stx = atx.to_sync();
  assert!(stx.closed.load(Ordering::Relaxed) == closed && snap(&rx.shared) == s0 && std::sync::Arc::strong_count(&rx.shared) == rc0);
  drop(stx);
  // exactly one decrement over the whole life of the sender, whatever was converted in between
  assert!(rx.shared.sender_count.load(Ordering::Relaxed) == 0 && rx.shared.producer_dropped.load(Ordering::Relaxed));
  assert!(rx.try_recv() == Ok(a));
  assert!(matches!(rx.try_recv(), Err(TryRecvError::Disconnected)));
  // receiver side
  if closed { assert!(rx.close().is_ok()); }
  let arx = rx.to_async();
  assert!(arx.closed.load(Ordering::Relaxed) == closed);
  let mut srx = arx.to_sync();
  assert!(srx.closed.load(Ordering::Relaxed) == closed);
  if closed { assert!(matches!(srx.try_recv(), Err(TryRecvError::Disconnected))); assert!(srx.close().is_err()); }
  let sh = srx.shared.clone();
  drop(srx);
  assert!(sh.receiver_count.load(Ordering::Relaxed) == 0 && sh.consumer_dropped.load(Ordering::Relaxed));
  std::mem::forget(sh);
  kani::cover!(true, "END");
}

// @obligation id=c04.spsc.gate.SyncSender props=C04,C01 kind=hist tier=quick bound="bounded(2) holding one value (any u8); payloads any u8; closed BoundedSyncSender: every send form, second close, drop; then drain and Disconnected"
#[kani::proof]
#[kani::stub(std::thread::current::current, crate::verif_k_stubs::stub_thread_current)]
#[kani::stub(parking_lot::RawMutex::lock_slow, crate::verif_k_stubs::stub_lock_slow)]
#[kani::stub(parking_lot::RawMutex::unlock_slow, crate::verif_k_stubs::stub_unlock_slow)]
#[kani::stub(std::thread::park, crate::verif_k_stubs::stub_park)]
#[kani::stub(std::thread::park_timeout, crate::verif_k_stubs::stub_park_timeout)]
#[kani::stub(std::time::Instant::now, stub_instant_now)]
#[kani::unwind(6)]
fn ob_c04_spsc_gate_sync_sender() { gate_sync_sender(); }

// @obligation id=c04.spsc.gate.SyncReceiver props=C04,C01 kind=hist tier=quick bound="bounded(2) holding one value (any u8); payloads any u8; closed BoundedSyncReceiver: every receive form incl. recv_timeout, second close, drop"
#[kani::proof]
#[kani::stub(std::thread::current::current, crate::verif_k_stubs::stub_thread_current)]
#[kani::stub(parking_lot::RawMutex::lock_slow, crate::verif_k_stubs::stub_lock_slow)]
#[kani::stub(parking_lot::RawMutex::unlock_slow, crate::verif_k_stubs::stub_unlock_slow)]
#[kani::stub(std::thread::park, crate::verif_k_stubs::stub_park)]
#[kani::stub(std::thread::park_timeout, crate::verif_k_stubs::stub_park_timeout)]
#[kani::stub(std::time::Instant::now, stub_instant_now)]
#[kani::unwind(6)]
fn ob_c04_spsc_gate_sync_receiver() { gate_sync_receiver(); }

// @obligation id=c04.spsc.gate.AsyncSender props=C04,C01 kind=hist tier=quick bound="bounded(2) holding one value (any u8); payloads any u8; closed BoundedAsyncSender: every send form (futures polled once), second close, drop"
#[kani::proof]
#[kani::stub(std::thread::current::current, crate::verif_k_stubs::stub_thread_current)]
#[kani::stub(parking_lot::RawMutex::lock_slow, crate::verif_k_stubs::stub_lock_slow)]
#[kani::stub(parking_lot::RawMutex::unlock_slow, crate::verif_k_stubs::stub_unlock_slow)]
#[kani::stub(std::thread::park, crate::verif_k_stubs::stub_park)]
#[kani::stub(std::thread::park_timeout, crate::verif_k_stubs::stub_park_timeout)]
#[kani::stub(std::time::Instant::now, stub_instant_now)]
#[kani::unwind(6)]
fn ob_c04_spsc_gate_async_sender() { gate_async_sender(); }

// @obligation id=c04.spsc.gate.AsyncReceiver props=C04,C01 kind=hist tier=quick bound="bounded(2) holding one value (any u8); payloads any u8; closed BoundedAsyncReceiver: every receive form (futures polled once), second close, drop"
#[kani::proof]
#[kani::stub(std::thread::current::current, crate::verif_k_stubs::stub_thread_current)]
#[kani::stub(parking_lot::RawMutex::lock_slow, crate::verif_k_stubs::stub_lock_slow)]
#[kani::stub(parking_lot::RawMutex::unlock_slow, crate::verif_k_stubs::stub_unlock_slow)]
#[kani::stub(std::thread::park, crate::verif_k_stubs::stub_park)]
#[kani::stub(std::thread::park_timeout, crate::verif_k_stubs::stub_park_timeout)]
#[kani::stub(std::time::Instant::now, stub_instant_now)]
#[kani::unwind(6)]
fn ob_c04_spsc_gate_async_receiver() { gate_async_receiver(); }

// @obligation id=c04.spsc.conv.closed props=C04,C01,C09 kind=hist tier=quick bound="bounded(2) holding one value (any u8); payloads any u8; close, to_async, to_sync on both sides, drop"
#[kani::proof]
#[kani::stub(std::thread::current::current, crate::verif_k_stubs::stub_thread_current)]
#[kani::stub(parking_lot::RawMutex::lock_slow, crate::verif_k_stubs::stub_lock_slow)]
#[kani::stub(parking_lot::RawMutex::unlock_slow, crate::verif_k_stubs::stub_unlock_slow)]
#[kani::stub(std::thread::park, crate::verif_k_stubs::stub_park)]
#[kani::stub(std::thread::park_timeout, crate::verif_k_stubs::stub_park_timeout)]
#[kani::stub(std::time::Instant::now, stub_instant_now)]
#[kani::unwind(6)]
fn ob_c04_spsc_conv_closed() { conv(true); }

// @obligation id=c04.spsc.conv.open props=C04,C01,C09 kind=hist tier=quick bound="bounded(2) holding one value (any u8); payloads any u8; to_async, to_sync on both sides, drop"
#[kani::proof]
#[kani::stub(std::thread::current::current, crate::verif_k_stubs::stub_thread_current)]
#[kani::stub(parking_lot::RawMutex::lock_slow, crate::verif_k_stubs::stub_lock_slow)]
#[kani::stub(parking_lot::RawMutex::unlock_slow, crate::verif_k_stubs::stub_unlock_slow)]
#[kani::stub(std::thread::park, crate::verif_k_stubs::stub_park)]
#[kani::stub(std::thread::park_timeout, crate::verif_k_stubs::stub_park_timeout)]
#[kani::stub(std::time::Instant::now, stub_instant_now)]
#[kani::unwind(6)]
fn ob_c04_spsc_conv_open() { conv(false); }
