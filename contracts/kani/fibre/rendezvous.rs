// @unit crate=fibre file=channels/src/internal/rendezvous.rs
// @needs fibre/stubs.rs
// Step contracts for the rendezvous core (`RendezvousShared`, both receiver stores).
//
// Abstract state: parked senders S (FIFO, each holding one item in its own slot), parked receivers
// R (FIFO, each with an empty destination), sender_count, receiver_count.
// I-rv (representation invariant, all under the core mutex):
//   every linked record has *state == WAITING; a linked sender's slot is Some, a linked receiver's
//   dest is None; S and R are never both non-empty; receiver_count == 0 => S empty;
//   sender_count == 0 => R empty.
// "The channel holds no value": a value only ever moves slot -> dest (or slot -> return value).
use super::*;
use crate::verif_k_stubs::*;

pub(crate) const NW: usize = 2;

/// Harness-owned waiter memory (what a blocked thread's stack frame / a pinned future provides).
pub(crate) struct Mem {
  pub s_state: [AtomicU8; NW],
  pub s_slot: [Option<u8>; NW],
  pub r_state: [AtomicU8; NW],
  pub r_dest: [Option<u8>; NW],
}

impl Mem {
  pub(crate) fn new() -> Self {
    Mem {
      s_state: [AtomicU8::new(WAITING), AtomicU8::new(WAITING)],
      s_slot: [None, None],
      r_state: [AtomicU8::new(WAITING), AtomicU8::new(WAITING)],
      r_dest: [None, None],
    }
  }
}

pub(crate) struct Shape { pub ns: usize, pub nr: usize, pub sc: usize, pub rc: usize, pub items: [u8; NW] }

/// Arbitrary state satisfying I-rv with ns parked senders (wakers 0,1) and nr parked receivers (wakers 2,3).
pub(crate) fn any_state<R: ReceiverStore<u8>>(sh: &RendezvousShared<u8, R>, m: &mut Mem, ns: usize, nr: usize) -> Shape {
  assert!(ns <= NW && nr <= NW && (ns == 0 || nr == 0));
  let sc: usize = kani::any();
  let rc: usize = kani::any();
  kani::assume(sc <= 2 && rc <= 2);
  kani::assume(rc > 0 || ns == 0);
  kani::assume(sc > 0 || nr == 0);
  let items: [u8; NW] = kani::any();
  {
    let mut core = sh.core.lock();
    core.sender_count = sc;
    core.receiver_count = rc;
    let mut i = 0;
    while i < NW {
      if i < ns {
        m.s_slot[i] = Some(items[i]);
        core.sender_waiters.push_back(SenderRec {
          state: &m.s_state[i] as *const AtomicU8,
          src: &mut m.s_slot[i] as *mut Option<u8>,
          wake: WakeHandle::Waker(waker(i)),
        });
      }
      if i < nr {
        core.receivers.push_receiver(RecvRec {
          state: &m.r_state[i] as *const AtomicU8,
          dest: &mut m.r_dest[i] as *mut Option<u8>,
          wake: WakeHandle::Waker(waker(2 + i)),
        });
      }
      i += 1;
    }
  }
  Shape { ns, nr, sc, rc, items }
}

pub(crate) fn st(a: &AtomicU8) -> u8 { a.load(Ordering::Relaxed) }

impl<R: ReceiverStore<u8>> RendezvousShared<u8, R> {
  pub(crate) fn k_ns(&self) -> usize { self.core.lock().sender_waiters.len() }
  pub(crate) fn k_sender_ptr(&self, i: usize) -> *const AtomicU8 { self.core.lock().sender_waiters[i].state }
  pub(crate) fn k_counts(&self) -> (usize, usize) { let c = self.core.lock(); (c.sender_count, c.receiver_count) }
  pub(crate) fn k_set_counts(&self, sc: usize, rc: usize) { let mut c = self.core.lock(); c.sender_count = sc; c.receiver_count = rc; }
  /// I-rv over the sender queue (the receiver stores are checked by the per-store helpers below).
  pub(crate) fn k_senders_wf(&self) -> bool {
    let c = self.core.lock();
    let mut ok = true;
    let mut i = 0;
    while i < NW {
      if i < c.sender_waiters.len() {
        let r = &c.sender_waiters[i];
        unsafe {
          if (*r.state).load(Ordering::Relaxed) != WAITING { ok = false; }
          if (*r.src).is_none() { ok = false; }
        }
      }
      i += 1;
    }
    if c.receiver_count == 0 && c.sender_waiters.len() != 0 { ok = false; }
    ok
  }
}

impl RendezvousShared<u8, VecDeque<RecvRec<u8>>> {
  pub(crate) fn k_nr(&self) -> usize { self.core.lock().receivers.len() }
  pub(crate) fn k_recv_ptr(&self, i: usize) -> *const AtomicU8 { self.core.lock().receivers[i].state }
  pub(crate) fn k_receivers_wf(&self) -> bool {
    let c = self.core.lock();
    let mut ok = true;
    let mut i = 0;
    while i < NW {
      if i < c.receivers.len() {
        let r = &c.receivers[i];
        unsafe {
          if (*r.state).load(Ordering::Relaxed) != WAITING { ok = false; }
          if (*r.dest).is_some() { ok = false; }
        }
      }
      i += 1;
    }
    if c.sender_count == 0 && c.receivers.len() != 0 { ok = false; }
    if c.receivers.len() != 0 && c.sender_waiters.len() != 0 { ok = false; }
    ok
  }
}

impl RendezvousShared<u8, Option<RecvRec<u8>>> {
  pub(crate) fn k_nr(&self) -> usize { if self.core.lock().receivers.is_some() { 1 } else { 0 } }
  pub(crate) fn k_receivers_wf(&self) -> bool {
    let c = self.core.lock();
    let mut ok = true;
    if let Some(r) = &c.receivers {
      unsafe {
        if (*r.state).load(Ordering::Relaxed) != WAITING { ok = false; }
        if (*r.dest).is_some() { ok = false; }
      }
      if c.sender_count == 0 || c.sender_waiters.len() != 0 { ok = false; }
    }
    ok
  }
}

macro_rules! rv_steps {
  ($modname:ident, $ty:ty, $maxr:expr) => {
    pub(crate) mod $modname {
      use super::*;
      type Sh = $ty;

      pub(crate) fn frame_senders_unchanged(m: &Mem, sh: &Shape, from: usize) {
        let mut i = 0;
        while i < NW {
          if i >= from && i < sh.ns {
            assert!(st(&m.s_state[i]) == WAITING);
            assert!(m.s_slot[i] == Some(sh.items[i]));
            assert!(wakes(i) == 0);
          }
          i += 1;
        }
      }
      pub(crate) fn frame_receivers_unchanged(m: &Mem, sh: &Shape, from: usize) {
        let mut i = 0;
        while i < NW {
          if i >= from && i < sh.nr {
            assert!(st(&m.r_state[i]) == WAITING);
            assert!(m.r_dest[i].is_none());
            assert!(wakes(2 + i) == 0);
          }
          i += 1;
        }
      }

      pub(crate) fn step_try_send(ns0: usize, nr0: usize) {
        let sh = Sh::new();
        let mut m = Mem::new();
        let s = any_state(&sh, &mut m, ns0, nr0);
        assert!(sh.k_senders_wf() && sh.k_receivers_wf());
        let x: u8 = kani::any();
        let res = sh.try_send(x);
        assert!(sh.k_senders_wf() && sh.k_receivers_wf());
        assert!(sh.k_counts() == (s.sc, s.rc));
        assert!(sh.k_ns() == s.ns);
        frame_senders_unchanged(&m, &s, 0);
        match res {
          Ok(()) => {
            // completes only by pairing with a parked receiver: the OLDEST one gets exactly x
            assert!(s.rc > 0 && s.nr > 0);
            assert!(sh.k_nr() == s.nr - 1);
            assert!(m.r_dest[0] == Some(x));
            assert!(st(&m.r_state[0]) == DONE);
            assert!(wakes(2) == 1);
            frame_receivers_unchanged(&m, &s, 1);
            kani::cover!(true);
          }
          Err(TrySendError::Closed(y)) => {
            assert!(y == x && s.rc == 0);
            assert!(sh.k_nr() == s.nr);
            frame_receivers_unchanged(&m, &s, 0);
            kani::cover!(true);
          }
          Err(TrySendError::Full(y)) => {
            assert!(y == x && s.rc > 0 && s.nr == 0);
            assert!(sh.k_nr() == 0);
            kani::cover!(true);
          }
          Err(TrySendError::Sent(_)) => assert!(false),
        }
        kani::cover!(true, "END");
      }

      pub(crate) fn step_try_recv(ns0: usize, nr0: usize) {
        let sh = Sh::new();
        let mut m = Mem::new();
        let s = any_state(&sh, &mut m, ns0, nr0);
        let res = sh.try_recv();
        assert!(sh.k_senders_wf() && sh.k_receivers_wf());
        assert!(sh.k_counts() == (s.sc, s.rc));
        assert!(sh.k_nr() == s.nr);
        frame_receivers_unchanged(&m, &s, 0);
        match res {
          Ok(y) => {
            // takes the OLDEST parked sender's item, exactly once
            assert!(s.ns > 0 && y == s.items[0]);
            assert!(sh.k_ns() == s.ns - 1);
            assert!(m.s_slot[0].is_none());
            assert!(st(&m.s_state[0]) == DONE);
            assert!(wakes(0) == 1);
            frame_senders_unchanged(&m, &s, 1);
            kani::cover!(true);
            let c3 = s.sc == 0; kani::cover!(c3); // drain before Disconnected
          }
          Err(TryRecvError::Empty) => { assert!(s.ns == 0 && s.sc > 0); assert!(sh.k_ns() == 0); kani::cover!(true); }
          Err(TryRecvError::Disconnected) => { assert!(s.ns == 0 && s.sc == 0); assert!(sh.k_ns() == 0); kani::cover!(true); }
        }
        kani::cover!(true, "END");
      }

      pub(crate) fn step_poll_send_fresh(ns0: usize, nr0: usize) {
        let sh = Sh::new();
        let mut m = Mem::new();
        let s = any_state(&sh, &mut m, ns0, nr0);
        let my_state = AtomicU8::new(kani::any());
        let x: u8 = kani::any();
        let mut slot = Some(x);
        let mut registered = false;
        let w = waker(1);
        let mut cx = Context::from_waker(&w);
        let res = sh.poll_send(&mut cx, &my_state, &mut slot, &mut registered);
        assert!(sh.k_receivers_wf());
        assert!(sh.k_counts() == (s.sc, s.rc));
        frame_senders_unchanged(&m, &Shape { ns: s.ns, nr: s.nr, sc: s.sc, rc: s.rc, items: s.items }, 0);
        match res {
          Poll::Ready(Ok(())) => {
            assert!(s.rc > 0 && s.nr > 0 && !registered);
            assert!(slot.is_none());
            assert!(m.r_dest[0] == Some(x) && st(&m.r_state[0]) == DONE && wakes(2) == 1);
            assert!(sh.k_nr() == s.nr - 1 && sh.k_ns() == s.ns);
            frame_receivers_unchanged(&m, &s, 1);
            kani::cover!(true);
          }
          Poll::Ready(Err(SendError::Closed)) => {
            // failure has no effect: the payload is still in the future's slot
            assert!(s.rc == 0 && slot == Some(x) && !registered);
            assert!(sh.k_ns() == s.ns && sh.k_nr() == s.nr);
            kani::cover!(true);
          }
          Poll::Ready(Err(_)) => assert!(false),
          Poll::Pending => {
            // Pending => a WAITING record for this future sits at the BACK of the queue with my waker,
            // and the payload has not left the future (no early deposit)
            assert!(s.rc > 0 && s.nr == 0 && registered);
            assert!(slot == Some(x));
            assert!(st(&my_state) == WAITING);
            assert!(sh.k_ns() == s.ns + 1);
            assert!(sh.k_sender_ptr(s.ns) == &my_state as *const AtomicU8);
            assert!(wakes(1) == 0);
            assert!(sh.k_nr() == 0);
            kani::cover!(true);
          }
        }
        assert!(sh.k_senders_wf());
        kani::cover!(true, "END");
      }

      pub(crate) fn step_poll_recv_fresh(ns0: usize, nr0: usize) {
        let sh = Sh::new();
        let mut m = Mem::new();
        let s = any_state(&sh, &mut m, ns0, nr0);
        let my_state = AtomicU8::new(kani::any());
        let mut dest: Option<u8> = None;
        let mut registered = false;
        let w = waker(3);
        let mut cx = Context::from_waker(&w);
        let res = sh.poll_recv(&mut cx, &my_state, &mut dest, &mut registered);
        assert!(sh.k_senders_wf());
        assert!(sh.k_counts() == (s.sc, s.rc));
        frame_receivers_unchanged(&m, &s, 0);
        match res {
          Poll::Ready(Ok(y)) => {
            assert!(s.ns > 0 && y == s.items[0] && !registered && dest.is_none());
            assert!(m.s_slot[0].is_none() && st(&m.s_state[0]) == DONE && wakes(0) == 1);
            assert!(sh.k_ns() == s.ns - 1 && sh.k_nr() == s.nr);
            frame_senders_unchanged(&m, &s, 1);
            kani::cover!(true);
          }
          Poll::Ready(Err(RecvError::Disconnected)) => {
            assert!(s.ns == 0 && s.sc == 0 && !registered);
            assert!(sh.k_nr() == s.nr);
            kani::cover!(true);
          }
          Poll::Pending => {
            assert!(s.ns == 0 && s.sc > 0 && registered);
            assert!(st(&my_state) == WAITING && dest.is_none());
            assert!(sh.k_nr() == s.nr + 1);
            assert!(wakes(3) == 0);
            assert!(sh.k_ns() == 0);
            kani::cover!(true);
          }
        }
        assert!(sh.k_receivers_wf());
        kani::cover!(true, "END");
      }

      /// Re-poll of a registered future: WAITING => still exactly one record, waker replaced;
      /// terminal => Ready with the terminal outcome.
      pub(crate) fn step_repoll(ns0: usize, nr0: usize) {
        let sh = Sh::new();
        let mut m = Mem::new();
        let s = any_state(&sh, &mut m, ns0, nr0);
        let which_recv: bool = kani::any();
        let w = waker(1);
        let mut cx = Context::from_waker(&w);
        if !which_recv {
          kani::assume(s.ns >= 1);
          let mut registered = true;
          let term: u8 = kani::any();
          kani::assume(term <= DISCONNECTED);
          if term != WAITING {
            // a peer resolved record 0 under the lock: it is unlinked, then its state published
            let rec = sh.core.lock().sender_waiters.pop_front();
            if term == DONE { m.s_slot[0] = None; }
            m.s_state[0].store(term, Ordering::Relaxed);
            drop(rec);
          }
          let (p_state, p_slot) = (&m.s_state[0] as *const AtomicU8, &mut m.s_slot[0] as *mut Option<u8>);
          let res = unsafe { sh.poll_send(&mut cx, &*p_state, &mut *p_slot, &mut registered) };
          match res {
            Poll::Pending => {
              assert!(term == WAITING && registered && sh.k_ns() == s.ns);
              assert!(m.s_slot[0] == Some(s.items[0]));
              // the replaced waker is the one that gets woken now
              let _ = sh.try_recv();
              assert!(wakes(1) == 1 && wakes(0) == 0);
              kani::cover!(true);
            }
            Poll::Ready(Ok(())) => { assert!(term == DONE && !registered); kani::cover!(true); }
            Poll::Ready(Err(_)) => { assert!((term == DISCONNECTED || term == CANCELLED) && !registered); kani::cover!(true); }
          }
        } else {
          kani::assume(s.nr >= 1);
          let mut registered = true;
          let term: u8 = kani::any();
          kani::assume(term <= DISCONNECTED);
          let v: u8 = kani::any();
          if term != WAITING {
            let rec = sh.core.lock().receivers.pop_receiver();
            if term == DONE { m.r_dest[0] = Some(v); }
            m.r_state[0].store(term, Ordering::Relaxed);
            drop(rec);
          }
          let (p_state, p_dest) = (&m.r_state[0] as *const AtomicU8, &mut m.r_dest[0] as *mut Option<u8>);
          let res = unsafe { sh.poll_recv(&mut cx, &*p_state, &mut *p_dest, &mut registered) };
          match res {
            Poll::Pending => {
              assert!(term == WAITING && registered && sh.k_nr() == s.nr);
              if s.rc > 0 { assert!(sh.try_send(9).is_ok()); assert!(wakes(1) == 1 && wakes(2) == 0); kani::cover!(true); }
            }
            Poll::Ready(Ok(y)) => { assert!(term == DONE && y == v && !registered); kani::cover!(true); }
            Poll::Ready(Err(_)) => { assert!((term == DISCONNECTED || term == CANCELLED) && !registered); kani::cover!(true); }
          }
        }
        kani::cover!(true, "END");
      }

      pub(crate) fn step_cancel(ns0: usize, nr0: usize, idx: usize) {
        let sh = Sh::new();
        let mut m = Mem::new();
        let s = any_state(&sh, &mut m, ns0, nr0);
        let which_recv = nr0 > 0;
        if !which_recv {
          assert!(idx < s.ns);
          let r = sh.cancel_sender(&m.s_state[idx] as *const AtomicU8, &m.s_state[idx]);
          // a linked (hence WAITING) sender is removed and KEEPS its payload; nobody else is touched
          assert!(r);
          assert!(st(&m.s_state[idx]) == CANCELLED && m.s_slot[idx] == Some(s.items[idx]));
          assert!(sh.k_ns() == s.ns - 1 && sh.k_nr() == s.nr);
          if s.ns == 2 { let o = 1 - idx; assert!(st(&m.s_state[o]) == WAITING && m.s_slot[o] == Some(s.items[o]) && sh.k_sender_ptr(0) == &m.s_state[o] as *const AtomicU8); kani::cover!(true); }
        } else {
          assert!(idx < s.nr);
          let r = sh.cancel_receiver(&m.r_state[idx] as *const AtomicU8, &m.r_state[idx]);
          assert!(r);
          assert!(st(&m.r_state[idx]) == CANCELLED && m.r_dest[idx].is_none());
          assert!(sh.k_nr() == s.nr - 1 && sh.k_ns() == s.ns);
          kani::cover!(true);
        }
        assert!(sh.k_senders_wf() && sh.k_receivers_wf());
        assert!(wakes(0) == 0 && wakes(1) == 0 && wakes(2) == 0 && wakes(3) == 0);
        kani::cover!(true, "END");
      }

      /// cancel of a waiter that a peer has already resolved (unlinked, terminal state published):
      /// returns false, the outcome stands, nothing else is touched.
      pub(crate) fn step_cancel_terminal(ns0: usize, nr0: usize, as_recv: bool) {
        let sh = Sh::new();
        let mut m = Mem::new();
        let s = any_state(&sh, &mut m, ns0, nr0);
        let mut t0 = DONE;
        while t0 <= DISCONNECTED {
          let my_state = AtomicU8::new(t0);
          let r = if as_recv { sh.cancel_receiver(&my_state as *const AtomicU8, &my_state) } else { sh.cancel_sender(&my_state as *const AtomicU8, &my_state) };
          assert!(!r);
          assert!(st(&my_state) == t0);
          t0 += 1;
        }
        assert!(sh.k_ns() == s.ns && sh.k_nr() == s.nr && sh.k_counts() == (s.sc, s.rc));
        frame_senders_unchanged(&m, &s, 0);
        frame_receivers_unchanged(&m, &s, 0);
        kani::cover!(true, "END");
      }

      pub(crate) fn step_drop_side(ns0: usize, nr0: usize) {
        let sh = Sh::new();
        let mut m = Mem::new();
        let s = any_state(&sh, &mut m, ns0, nr0);
        let drop_sender_side: bool = kani::any();
        if drop_sender_side {
          kani::assume(s.sc >= 1);
          sh.drop_sender();
          assert!(sh.k_counts() == (s.sc - 1, s.rc));
          frame_senders_unchanged(&m, &s, 0);
          assert!(sh.k_ns() == s.ns);
          if s.sc == 1 {
            // last sender gone: every parked receiver is disconnected and woken exactly once
            assert!(sh.k_nr() == 0);
            let mut i = 0;
            while i < NW { if i < s.nr { assert!(st(&m.r_state[i]) == DISCONNECTED && m.r_dest[i].is_none() && wakes(2 + i) == 1); } i += 1; }
            kani::cover!(true);
          } else {
            // one of several clones: nothing is disconnected
            assert!(sh.k_nr() == s.nr);
            frame_receivers_unchanged(&m, &s, 0);
            kani::cover!(true);
          }
        } else {
          kani::assume(s.rc >= 1);
          sh.drop_receiver();
          assert!(sh.k_counts() == (s.sc, s.rc - 1));
          frame_receivers_unchanged(&m, &s, 0);
          assert!(sh.k_nr() == s.nr);
          if s.rc == 1 {
            // last receiver gone: parked senders are woken with DISCONNECTED and keep their payload
            assert!(sh.k_ns() == 0);
            let mut i = 0;
            while i < NW { if i < s.ns { assert!(st(&m.s_state[i]) == DISCONNECTED && m.s_slot[i] == Some(s.items[i]) && wakes(i) == 1); } i += 1; }
            kani::cover!(true);
            // and every later send fails with Closed, handing the value back
            match sh.try_send(5) { Err(TrySendError::Closed(5)) => {}, _ => assert!(false) }
          } else {
            assert!(sh.k_ns() == s.ns);
            frame_senders_unchanged(&m, &s, 0);
            kani::cover!(true);
          }
        }
        assert!(sh.k_senders_wf() && sh.k_receivers_wf());
        kani::cover!(true, "END");
      }
    }
  };
}

rv_steps!(mpmc_store, MpmcRvShared<u8>, 2);
rv_steps!(mpsc_store, MpscRvShared<u8>, 1);

// @obligation id=rv.mpmc_store.try_send.s0r0 props=C01,C03,C06 kind=step tier=quick bound="VecDeque receiver store (mpmc); 0 parked senders, 0 parked receivers; counts any <=2; payloads any u8; one try_send"
#[kani::proof]
#[kani::stub(std::thread::current::current, crate::verif_k_stubs::stub_thread_current)]
#[kani::stub(parking_lot::RawMutex::lock_slow, crate::verif_k_stubs::stub_lock_slow)]
#[kani::stub(parking_lot::RawMutex::unlock_slow, crate::verif_k_stubs::stub_unlock_slow)]
#[kani::unwind(6)]
fn ob_rv_mpmc_store_try_send_s0r0() { mpmc_store::step_try_send(0, 0); }

// @obligation id=rv.mpmc_store.try_send.s1r0 props=C01,C03,C06 kind=step tier=quick bound="VecDeque receiver store (mpmc); 1 parked senders, 0 parked receivers; counts any <=2; payloads any u8; one try_send"
#[kani::proof]
#[kani::stub(std::thread::current::current, crate::verif_k_stubs::stub_thread_current)]
#[kani::stub(parking_lot::RawMutex::lock_slow, crate::verif_k_stubs::stub_lock_slow)]
#[kani::stub(parking_lot::RawMutex::unlock_slow, crate::verif_k_stubs::stub_unlock_slow)]
#[kani::unwind(6)]
fn ob_rv_mpmc_store_try_send_s1r0() { mpmc_store::step_try_send(1, 0); }

// @obligation id=rv.mpmc_store.try_send.s2r0 props=C01,C03,C06 kind=step tier=quick bound="VecDeque receiver store (mpmc); 2 parked senders, 0 parked receivers; counts any <=2; payloads any u8; one try_send"
#[kani::proof]
#[kani::stub(std::thread::current::current, crate::verif_k_stubs::stub_thread_current)]
#[kani::stub(parking_lot::RawMutex::lock_slow, crate::verif_k_stubs::stub_lock_slow)]
#[kani::stub(parking_lot::RawMutex::unlock_slow, crate::verif_k_stubs::stub_unlock_slow)]
#[kani::unwind(6)]
fn ob_rv_mpmc_store_try_send_s2r0() { mpmc_store::step_try_send(2, 0); }

// @obligation id=rv.mpmc_store.try_send.s0r1 props=C01,C03,C06 kind=step tier=quick bound="VecDeque receiver store (mpmc); 0 parked senders, 1 parked receivers; counts any <=2; payloads any u8; one try_send"
#[kani::proof]
#[kani::stub(std::thread::current::current, crate::verif_k_stubs::stub_thread_current)]
#[kani::stub(parking_lot::RawMutex::lock_slow, crate::verif_k_stubs::stub_lock_slow)]
#[kani::stub(parking_lot::RawMutex::unlock_slow, crate::verif_k_stubs::stub_unlock_slow)]
#[kani::unwind(6)]
fn ob_rv_mpmc_store_try_send_s0r1() { mpmc_store::step_try_send(0, 1); }

// @obligation id=rv.mpmc_store.try_send.s0r2 props=C01,C03,C06 kind=step tier=quick bound="VecDeque receiver store (mpmc); 0 parked senders, 2 parked receivers; counts any <=2; payloads any u8; one try_send"
#[kani::proof]
#[kani::stub(std::thread::current::current, crate::verif_k_stubs::stub_thread_current)]
#[kani::stub(parking_lot::RawMutex::lock_slow, crate::verif_k_stubs::stub_lock_slow)]
#[kani::stub(parking_lot::RawMutex::unlock_slow, crate::verif_k_stubs::stub_unlock_slow)]
#[kani::unwind(6)]
fn ob_rv_mpmc_store_try_send_s0r2() { mpmc_store::step_try_send(0, 2); }

// @obligation id=rv.mpmc_store.try_recv.s0r0 props=C01,C02,C04,C06 kind=step tier=quick bound="VecDeque receiver store (mpmc); 0 parked senders, 0 parked receivers; counts any <=2; payloads any u8; one try_recv"
#[kani::proof]
#[kani::stub(std::thread::current::current, crate::verif_k_stubs::stub_thread_current)]
#[kani::stub(parking_lot::RawMutex::lock_slow, crate::verif_k_stubs::stub_lock_slow)]
#[kani::stub(parking_lot::RawMutex::unlock_slow, crate::verif_k_stubs::stub_unlock_slow)]
#[kani::unwind(6)]
fn ob_rv_mpmc_store_try_recv_s0r0() { mpmc_store::step_try_recv(0, 0); }

// @obligation id=rv.mpmc_store.try_recv.s1r0 props=C01,C02,C04,C06 kind=step tier=quick bound="VecDeque receiver store (mpmc); 1 parked senders, 0 parked receivers; counts any <=2; payloads any u8; one try_recv"
#[kani::proof]
#[kani::stub(std::thread::current::current, crate::verif_k_stubs::stub_thread_current)]
#[kani::stub(parking_lot::RawMutex::lock_slow, crate::verif_k_stubs::stub_lock_slow)]
#[kani::stub(parking_lot::RawMutex::unlock_slow, crate::verif_k_stubs::stub_unlock_slow)]
#[kani::unwind(6)]
fn ob_rv_mpmc_store_try_recv_s1r0() { mpmc_store::step_try_recv(1, 0); }

// @obligation id=rv.mpmc_store.try_recv.s2r0 props=C01,C02,C04,C06 kind=step tier=quick bound="VecDeque receiver store (mpmc); 2 parked senders, 0 parked receivers; counts any <=2; payloads any u8; one try_recv"
#[kani::proof]
#[kani::stub(std::thread::current::current, crate::verif_k_stubs::stub_thread_current)]
#[kani::stub(parking_lot::RawMutex::lock_slow, crate::verif_k_stubs::stub_lock_slow)]
#[kani::stub(parking_lot::RawMutex::unlock_slow, crate::verif_k_stubs::stub_unlock_slow)]
#[kani::unwind(6)]
fn ob_rv_mpmc_store_try_recv_s2r0() { mpmc_store::step_try_recv(2, 0); }

// @obligation id=rv.mpmc_store.try_recv.s0r1 props=C01,C02,C04,C06 kind=step tier=quick bound="VecDeque receiver store (mpmc); 0 parked senders, 1 parked receivers; counts any <=2; payloads any u8; one try_recv"
#[kani::proof]
#[kani::stub(std::thread::current::current, crate::verif_k_stubs::stub_thread_current)]
#[kani::stub(parking_lot::RawMutex::lock_slow, crate::verif_k_stubs::stub_lock_slow)]
#[kani::stub(parking_lot::RawMutex::unlock_slow, crate::verif_k_stubs::stub_unlock_slow)]
#[kani::unwind(6)]
fn ob_rv_mpmc_store_try_recv_s0r1() { mpmc_store::step_try_recv(0, 1); }

// @obligation id=rv.mpmc_store.try_recv.s0r2 props=C01,C02,C04,C06 kind=step tier=quick bound="VecDeque receiver store (mpmc); 0 parked senders, 2 parked receivers; counts any <=2; payloads any u8; one try_recv"
#[kani::proof]
#[kani::stub(std::thread::current::current, crate::verif_k_stubs::stub_thread_current)]
#[kani::stub(parking_lot::RawMutex::lock_slow, crate::verif_k_stubs::stub_lock_slow)]
#[kani::stub(parking_lot::RawMutex::unlock_slow, crate::verif_k_stubs::stub_unlock_slow)]
#[kani::unwind(6)]
fn ob_rv_mpmc_store_try_recv_s0r2() { mpmc_store::step_try_recv(0, 2); }

// @obligation id=rv.mpmc_store.poll_send_fresh.s0r0 props=C01,C03,C06 kind=step tier=quick bound="VecDeque receiver store (mpmc); 0 parked senders, 0 parked receivers; counts any <=2; payloads any u8; first poll of a send future, then the enabling try_recv / cancel"
#[kani::proof]
#[kani::stub(std::thread::current::current, crate::verif_k_stubs::stub_thread_current)]
#[kani::stub(parking_lot::RawMutex::lock_slow, crate::verif_k_stubs::stub_lock_slow)]
#[kani::stub(parking_lot::RawMutex::unlock_slow, crate::verif_k_stubs::stub_unlock_slow)]
#[kani::unwind(6)]
fn ob_rv_mpmc_store_poll_send_fresh_s0r0() { mpmc_store::step_poll_send_fresh(0, 0); }

// @obligation id=rv.mpmc_store.poll_send_fresh.s1r0 props=C01,C03,C06 kind=step tier=quick bound="VecDeque receiver store (mpmc); 1 parked senders, 0 parked receivers; counts any <=2; payloads any u8; first poll of a send future, then the enabling try_recv / cancel"
#[kani::proof]
#[kani::stub(std::thread::current::current, crate::verif_k_stubs::stub_thread_current)]
#[kani::stub(parking_lot::RawMutex::lock_slow, crate::verif_k_stubs::stub_lock_slow)]
#[kani::stub(parking_lot::RawMutex::unlock_slow, crate::verif_k_stubs::stub_unlock_slow)]
#[kani::unwind(6)]
fn ob_rv_mpmc_store_poll_send_fresh_s1r0() { mpmc_store::step_poll_send_fresh(1, 0); }

// @obligation id=rv.mpmc_store.poll_send_fresh.s0r1 props=C01,C03,C06 kind=step tier=quick bound="VecDeque receiver store (mpmc); 0 parked senders, 1 parked receivers; counts any <=2; payloads any u8; first poll of a send future, then the enabling try_recv / cancel"
#[kani::proof]
#[kani::stub(std::thread::current::current, crate::verif_k_stubs::stub_thread_current)]
#[kani::stub(parking_lot::RawMutex::lock_slow, crate::verif_k_stubs::stub_lock_slow)]
#[kani::stub(parking_lot::RawMutex::unlock_slow, crate::verif_k_stubs::stub_unlock_slow)]
#[kani::unwind(6)]
fn ob_rv_mpmc_store_poll_send_fresh_s0r1() { mpmc_store::step_poll_send_fresh(0, 1); }

// @obligation id=rv.mpmc_store.poll_send_fresh.s0r2 props=C01,C03,C06 kind=step tier=quick bound="VecDeque receiver store (mpmc); 0 parked senders, 2 parked receivers; counts any <=2; payloads any u8; first poll of a send future, then the enabling try_recv / cancel"
#[kani::proof]
#[kani::stub(std::thread::current::current, crate::verif_k_stubs::stub_thread_current)]
#[kani::stub(parking_lot::RawMutex::lock_slow, crate::verif_k_stubs::stub_lock_slow)]
#[kani::stub(parking_lot::RawMutex::unlock_slow, crate::verif_k_stubs::stub_unlock_slow)]
#[kani::unwind(6)]
fn ob_rv_mpmc_store_poll_send_fresh_s0r2() { mpmc_store::step_poll_send_fresh(0, 2); }

// @obligation id=rv.mpmc_store.poll_recv_fresh.s0r0 props=C01,C06 kind=step tier=quick bound="VecDeque receiver store (mpmc); 0 parked senders, 0 parked receivers; counts any <=2; payloads any u8; first poll of a recv future, then the enabling try_send / cancel"
#[kani::proof]
#[kani::stub(std::thread::current::current, crate::verif_k_stubs::stub_thread_current)]
#[kani::stub(parking_lot::RawMutex::lock_slow, crate::verif_k_stubs::stub_lock_slow)]
#[kani::stub(parking_lot::RawMutex::unlock_slow, crate::verif_k_stubs::stub_unlock_slow)]
#[kani::unwind(6)]
fn ob_rv_mpmc_store_poll_recv_fresh_s0r0() { mpmc_store::step_poll_recv_fresh(0, 0); }

// @obligation id=rv.mpmc_store.poll_recv_fresh.s1r0 props=C01,C06 kind=step tier=quick bound="VecDeque receiver store (mpmc); 1 parked senders, 0 parked receivers; counts any <=2; payloads any u8; first poll of a recv future, then the enabling try_send / cancel"
#[kani::proof]
#[kani::stub(std::thread::current::current, crate::verif_k_stubs::stub_thread_current)]
#[kani::stub(parking_lot::RawMutex::lock_slow, crate::verif_k_stubs::stub_lock_slow)]
#[kani::stub(parking_lot::RawMutex::unlock_slow, crate::verif_k_stubs::stub_unlock_slow)]
#[kani::unwind(6)]
fn ob_rv_mpmc_store_poll_recv_fresh_s1r0() { mpmc_store::step_poll_recv_fresh(1, 0); }

// @obligation id=rv.mpmc_store.poll_recv_fresh.s2r0 props=C01,C06 kind=step tier=quick bound="VecDeque receiver store (mpmc); 2 parked senders, 0 parked receivers; counts any <=2; payloads any u8; first poll of a recv future, then the enabling try_send / cancel"
#[kani::proof]
#[kani::stub(std::thread::current::current, crate::verif_k_stubs::stub_thread_current)]
#[kani::stub(parking_lot::RawMutex::lock_slow, crate::verif_k_stubs::stub_lock_slow)]
#[kani::stub(parking_lot::RawMutex::unlock_slow, crate::verif_k_stubs::stub_unlock_slow)]
#[kani::unwind(6)]
fn ob_rv_mpmc_store_poll_recv_fresh_s2r0() { mpmc_store::step_poll_recv_fresh(2, 0); }

// @obligation id=rv.mpmc_store.poll_recv_fresh.s0r1 props=C01,C06 kind=step tier=quick bound="VecDeque receiver store (mpmc); 0 parked senders, 1 parked receivers; counts any <=2; payloads any u8; first poll of a recv future, then the enabling try_send / cancel"
#[kani::proof]
#[kani::stub(std::thread::current::current, crate::verif_k_stubs::stub_thread_current)]
#[kani::stub(parking_lot::RawMutex::lock_slow, crate::verif_k_stubs::stub_lock_slow)]
#[kani::stub(parking_lot::RawMutex::unlock_slow, crate::verif_k_stubs::stub_unlock_slow)]
#[kani::unwind(6)]
fn ob_rv_mpmc_store_poll_recv_fresh_s0r1() { mpmc_store::step_poll_recv_fresh(0, 1); }

// @obligation id=rv.mpmc_store.repoll.s1r0 props=C06 kind=step tier=quick bound="VecDeque receiver store (mpmc); 1 parked senders, 0 parked receivers; counts any <=2; payloads any u8; re-poll of a registered future in every waiter state"
#[kani::proof]
#[kani::stub(std::thread::current::current, crate::verif_k_stubs::stub_thread_current)]
#[kani::stub(parking_lot::RawMutex::lock_slow, crate::verif_k_stubs::stub_lock_slow)]
#[kani::stub(parking_lot::RawMutex::unlock_slow, crate::verif_k_stubs::stub_unlock_slow)]
#[kani::unwind(6)]
fn ob_rv_mpmc_store_repoll_s1r0() { mpmc_store::step_repoll(1, 0); }

// @obligation id=rv.mpmc_store.repoll.s2r0 props=C06 kind=step tier=quick bound="VecDeque receiver store (mpmc); 2 parked senders, 0 parked receivers; counts any <=2; payloads any u8; re-poll of a registered future in every waiter state"
#[kani::proof]
#[kani::stub(std::thread::current::current, crate::verif_k_stubs::stub_thread_current)]
#[kani::stub(parking_lot::RawMutex::lock_slow, crate::verif_k_stubs::stub_lock_slow)]
#[kani::stub(parking_lot::RawMutex::unlock_slow, crate::verif_k_stubs::stub_unlock_slow)]
#[kani::unwind(6)]
fn ob_rv_mpmc_store_repoll_s2r0() { mpmc_store::step_repoll(2, 0); }

// @obligation id=rv.mpmc_store.repoll.s0r1 props=C06 kind=step tier=quick bound="VecDeque receiver store (mpmc); 0 parked senders, 1 parked receivers; counts any <=2; payloads any u8; re-poll of a registered future in every waiter state"
#[kani::proof]
#[kani::stub(std::thread::current::current, crate::verif_k_stubs::stub_thread_current)]
#[kani::stub(parking_lot::RawMutex::lock_slow, crate::verif_k_stubs::stub_lock_slow)]
#[kani::stub(parking_lot::RawMutex::unlock_slow, crate::verif_k_stubs::stub_unlock_slow)]
#[kani::unwind(6)]
fn ob_rv_mpmc_store_repoll_s0r1() { mpmc_store::step_repoll(0, 1); }

// @obligation id=rv.mpmc_store.repoll.s0r2 props=C06 kind=step tier=quick bound="VecDeque receiver store (mpmc); 0 parked senders, 2 parked receivers; counts any <=2; payloads any u8; re-poll of a registered future in every waiter state"
#[kani::proof]
#[kani::stub(std::thread::current::current, crate::verif_k_stubs::stub_thread_current)]
#[kani::stub(parking_lot::RawMutex::lock_slow, crate::verif_k_stubs::stub_lock_slow)]
#[kani::stub(parking_lot::RawMutex::unlock_slow, crate::verif_k_stubs::stub_unlock_slow)]
#[kani::unwind(6)]
fn ob_rv_mpmc_store_repoll_s0r2() { mpmc_store::step_repoll(0, 2); }

// @obligation id=rv.mpmc_store.drop_side.s0r0 props=C04,C06 kind=step tier=quick bound="VecDeque receiver store (mpmc); 0 parked senders, 0 parked receivers; counts any <=2; payloads any u8; drop of one sender or receiver handle"
#[kani::proof]
#[kani::stub(std::thread::current::current, crate::verif_k_stubs::stub_thread_current)]
#[kani::stub(parking_lot::RawMutex::lock_slow, crate::verif_k_stubs::stub_lock_slow)]
#[kani::stub(parking_lot::RawMutex::unlock_slow, crate::verif_k_stubs::stub_unlock_slow)]
#[kani::unwind(6)]
fn ob_rv_mpmc_store_drop_side_s0r0() { mpmc_store::step_drop_side(0, 0); }

// @obligation id=rv.mpmc_store.drop_side.s1r0 props=C04,C06 kind=step tier=quick bound="VecDeque receiver store (mpmc); 1 parked senders, 0 parked receivers; counts any <=2; payloads any u8; drop of one sender or receiver handle"
#[kani::proof]
#[kani::stub(std::thread::current::current, crate::verif_k_stubs::stub_thread_current)]
#[kani::stub(parking_lot::RawMutex::lock_slow, crate::verif_k_stubs::stub_lock_slow)]
#[kani::stub(parking_lot::RawMutex::unlock_slow, crate::verif_k_stubs::stub_unlock_slow)]
#[kani::unwind(6)]
fn ob_rv_mpmc_store_drop_side_s1r0() { mpmc_store::step_drop_side(1, 0); }

// @obligation id=rv.mpmc_store.drop_side.s2r0 props=C04,C06 kind=step tier=quick bound="VecDeque receiver store (mpmc); 2 parked senders, 0 parked receivers; counts any <=2; payloads any u8; drop of one sender or receiver handle"
#[kani::proof]
#[kani::stub(std::thread::current::current, crate::verif_k_stubs::stub_thread_current)]
#[kani::stub(parking_lot::RawMutex::lock_slow, crate::verif_k_stubs::stub_lock_slow)]
#[kani::stub(parking_lot::RawMutex::unlock_slow, crate::verif_k_stubs::stub_unlock_slow)]
#[kani::unwind(6)]
fn ob_rv_mpmc_store_drop_side_s2r0() { mpmc_store::step_drop_side(2, 0); }

// @obligation id=rv.mpmc_store.drop_side.s0r1 props=C04,C06 kind=step tier=quick bound="VecDeque receiver store (mpmc); 0 parked senders, 1 parked receivers; counts any <=2; payloads any u8; drop of one sender or receiver handle"
#[kani::proof]
#[kani::stub(std::thread::current::current, crate::verif_k_stubs::stub_thread_current)]
#[kani::stub(parking_lot::RawMutex::lock_slow, crate::verif_k_stubs::stub_lock_slow)]
#[kani::stub(parking_lot::RawMutex::unlock_slow, crate::verif_k_stubs::stub_unlock_slow)]
#[kani::unwind(6)]
fn ob_rv_mpmc_store_drop_side_s0r1() { mpmc_store::step_drop_side(0, 1); }

// @obligation id=rv.mpmc_store.drop_side.s0r2 props=C04,C06 kind=step tier=quick bound="VecDeque receiver store (mpmc); 0 parked senders, 2 parked receivers; counts any <=2; payloads any u8; drop of one sender or receiver handle"
#[kani::proof]
#[kani::stub(std::thread::current::current, crate::verif_k_stubs::stub_thread_current)]
#[kani::stub(parking_lot::RawMutex::lock_slow, crate::verif_k_stubs::stub_lock_slow)]
#[kani::stub(parking_lot::RawMutex::unlock_slow, crate::verif_k_stubs::stub_unlock_slow)]
#[kani::unwind(6)]
fn ob_rv_mpmc_store_drop_side_s0r2() { mpmc_store::step_drop_side(0, 2); }

// @obligation id=rv.mpsc_store.try_send.s0r0 props=C01,C03,C06 kind=step tier=quick bound="single-slot receiver store (mpsc); 0 parked senders, 0 parked receivers; counts any <=2; payloads any u8; one try_send"
#[kani::proof]
#[kani::stub(std::thread::current::current, crate::verif_k_stubs::stub_thread_current)]
#[kani::stub(parking_lot::RawMutex::lock_slow, crate::verif_k_stubs::stub_lock_slow)]
#[kani::stub(parking_lot::RawMutex::unlock_slow, crate::verif_k_stubs::stub_unlock_slow)]
#[kani::unwind(6)]
fn ob_rv_mpsc_store_try_send_s0r0() { mpsc_store::step_try_send(0, 0); }

// @obligation id=rv.mpsc_store.try_send.s1r0 props=C01,C03,C06 kind=step tier=quick bound="single-slot receiver store (mpsc); 1 parked senders, 0 parked receivers; counts any <=2; payloads any u8; one try_send"
#[kani::proof]
#[kani::stub(std::thread::current::current, crate::verif_k_stubs::stub_thread_current)]
#[kani::stub(parking_lot::RawMutex::lock_slow, crate::verif_k_stubs::stub_lock_slow)]
#[kani::stub(parking_lot::RawMutex::unlock_slow, crate::verif_k_stubs::stub_unlock_slow)]
#[kani::unwind(6)]
fn ob_rv_mpsc_store_try_send_s1r0() { mpsc_store::step_try_send(1, 0); }

// @obligation id=rv.mpsc_store.try_send.s2r0 props=C01,C03,C06 kind=step tier=quick bound="single-slot receiver store (mpsc); 2 parked senders, 0 parked receivers; counts any <=2; payloads any u8; one try_send"
#[kani::proof]
#[kani::stub(std::thread::current::current, crate::verif_k_stubs::stub_thread_current)]
#[kani::stub(parking_lot::RawMutex::lock_slow, crate::verif_k_stubs::stub_lock_slow)]
#[kani::stub(parking_lot::RawMutex::unlock_slow, crate::verif_k_stubs::stub_unlock_slow)]
#[kani::unwind(6)]
fn ob_rv_mpsc_store_try_send_s2r0() { mpsc_store::step_try_send(2, 0); }

// @obligation id=rv.mpsc_store.try_send.s0r1 props=C01,C03,C06 kind=step tier=quick bound="single-slot receiver store (mpsc); 0 parked senders, 1 parked receivers; counts any <=2; payloads any u8; one try_send"
#[kani::proof]
#[kani::stub(std::thread::current::current, crate::verif_k_stubs::stub_thread_current)]
#[kani::stub(parking_lot::RawMutex::lock_slow, crate::verif_k_stubs::stub_lock_slow)]
#[kani::stub(parking_lot::RawMutex::unlock_slow, crate::verif_k_stubs::stub_unlock_slow)]
#[kani::unwind(6)]
fn ob_rv_mpsc_store_try_send_s0r1() { mpsc_store::step_try_send(0, 1); }

// @obligation id=rv.mpsc_store.try_recv.s0r0 props=C01,C02,C04,C06 kind=step tier=quick bound="single-slot receiver store (mpsc); 0 parked senders, 0 parked receivers; counts any <=2; payloads any u8; one try_recv"
#[kani::proof]
#[kani::stub(std::thread::current::current, crate::verif_k_stubs::stub_thread_current)]
#[kani::stub(parking_lot::RawMutex::lock_slow, crate::verif_k_stubs::stub_lock_slow)]
#[kani::stub(parking_lot::RawMutex::unlock_slow, crate::verif_k_stubs::stub_unlock_slow)]
#[kani::unwind(6)]
fn ob_rv_mpsc_store_try_recv_s0r0() { mpsc_store::step_try_recv(0, 0); }

// @obligation id=rv.mpsc_store.try_recv.s1r0 props=C01,C02,C04,C06 kind=step tier=quick bound="single-slot receiver store (mpsc); 1 parked senders, 0 parked receivers; counts any <=2; payloads any u8; one try_recv"
#[kani::proof]
#[kani::stub(std::thread::current::current, crate::verif_k_stubs::stub_thread_current)]
#[kani::stub(parking_lot::RawMutex::lock_slow, crate::verif_k_stubs::stub_lock_slow)]
#[kani::stub(parking_lot::RawMutex::unlock_slow, crate::verif_k_stubs::stub_unlock_slow)]
#[kani::unwind(6)]
fn ob_rv_mpsc_store_try_recv_s1r0() { mpsc_store::step_try_recv(1, 0); }

// @obligation id=rv.mpsc_store.try_recv.s2r0 props=C01,C02,C04,C06 kind=step tier=quick bound="single-slot receiver store (mpsc); 2 parked senders, 0 parked receivers; counts any <=2; payloads any u8; one try_recv"
#[kani::proof]
#[kani::stub(std::thread::current::current, crate::verif_k_stubs::stub_thread_current)]
#[kani::stub(parking_lot::RawMutex::lock_slow, crate::verif_k_stubs::stub_lock_slow)]
#[kani::stub(parking_lot::RawMutex::unlock_slow, crate::verif_k_stubs::stub_unlock_slow)]
#[kani::unwind(6)]
fn ob_rv_mpsc_store_try_recv_s2r0() { mpsc_store::step_try_recv(2, 0); }

// @obligation id=rv.mpsc_store.try_recv.s0r1 props=C01,C02,C04,C06 kind=step tier=quick bound="single-slot receiver store (mpsc); 0 parked senders, 1 parked receivers; counts any <=2; payloads any u8; one try_recv"
#[kani::proof]
#[kani::stub(std::thread::current::current, crate::verif_k_stubs::stub_thread_current)]
#[kani::stub(parking_lot::RawMutex::lock_slow, crate::verif_k_stubs::stub_lock_slow)]
#[kani::stub(parking_lot::RawMutex::unlock_slow, crate::verif_k_stubs::stub_unlock_slow)]
#[kani::unwind(6)]
fn ob_rv_mpsc_store_try_recv_s0r1() { mpsc_store::step_try_recv(0, 1); }

// @obligation id=rv.mpsc_store.poll_send_fresh.s0r0 props=C01,C03,C06 kind=step tier=quick bound="single-slot receiver store (mpsc); 0 parked senders, 0 parked receivers; counts any <=2; payloads any u8; first poll of a send future, then the enabling try_recv / cancel"
#[kani::proof]
#[kani::stub(std::thread::current::current, crate::verif_k_stubs::stub_thread_current)]
#[kani::stub(parking_lot::RawMutex::lock_slow, crate::verif_k_stubs::stub_lock_slow)]
#[kani::stub(parking_lot::RawMutex::unlock_slow, crate::verif_k_stubs::stub_unlock_slow)]
#[kani::unwind(6)]
fn ob_rv_mpsc_store_poll_send_fresh_s0r0() { mpsc_store::step_poll_send_fresh(0, 0); }

// @obligation id=rv.mpsc_store.poll_send_fresh.s1r0 props=C01,C03,C06 kind=step tier=quick bound="single-slot receiver store (mpsc); 1 parked senders, 0 parked receivers; counts any <=2; payloads any u8; first poll of a send future, then the enabling try_recv / cancel"
#[kani::proof]
#[kani::stub(std::thread::current::current, crate::verif_k_stubs::stub_thread_current)]
#[kani::stub(parking_lot::RawMutex::lock_slow, crate::verif_k_stubs::stub_lock_slow)]
#[kani::stub(parking_lot::RawMutex::unlock_slow, crate::verif_k_stubs::stub_unlock_slow)]
#[kani::unwind(6)]
fn ob_rv_mpsc_store_poll_send_fresh_s1r0() { mpsc_store::step_poll_send_fresh(1, 0); }

// @obligation id=rv.mpsc_store.poll_send_fresh.s0r1 props=C01,C03,C06 kind=step tier=quick bound="single-slot receiver store (mpsc); 0 parked senders, 1 parked receivers; counts any <=2; payloads any u8; first poll of a send future, then the enabling try_recv / cancel"
#[kani::proof]
#[kani::stub(std::thread::current::current, crate::verif_k_stubs::stub_thread_current)]
#[kani::stub(parking_lot::RawMutex::lock_slow, crate::verif_k_stubs::stub_lock_slow)]
#[kani::stub(parking_lot::RawMutex::unlock_slow, crate::verif_k_stubs::stub_unlock_slow)]
#[kani::unwind(6)]
fn ob_rv_mpsc_store_poll_send_fresh_s0r1() { mpsc_store::step_poll_send_fresh(0, 1); }

// @obligation id=rv.mpsc_store.poll_recv_fresh.s0r0 props=C01,C06 kind=step tier=quick bound="single-slot receiver store (mpsc); 0 parked senders, 0 parked receivers; counts any <=2; payloads any u8; first poll of a recv future, then the enabling try_send / cancel"
#[kani::proof]
#[kani::stub(std::thread::current::current, crate::verif_k_stubs::stub_thread_current)]
#[kani::stub(parking_lot::RawMutex::lock_slow, crate::verif_k_stubs::stub_lock_slow)]
#[kani::stub(parking_lot::RawMutex::unlock_slow, crate::verif_k_stubs::stub_unlock_slow)]
#[kani::unwind(6)]
fn ob_rv_mpsc_store_poll_recv_fresh_s0r0() { mpsc_store::step_poll_recv_fresh(0, 0); }

// @obligation id=rv.mpsc_store.poll_recv_fresh.s1r0 props=C01,C06 kind=step tier=quick bound="single-slot receiver store (mpsc); 1 parked senders, 0 parked receivers; counts any <=2; payloads any u8; first poll of a recv future, then the enabling try_send / cancel"
#[kani::proof]
#[kani::stub(std::thread::current::current, crate::verif_k_stubs::stub_thread_current)]
#[kani::stub(parking_lot::RawMutex::lock_slow, crate::verif_k_stubs::stub_lock_slow)]
#[kani::stub(parking_lot::RawMutex::unlock_slow, crate::verif_k_stubs::stub_unlock_slow)]
#[kani::unwind(6)]
fn ob_rv_mpsc_store_poll_recv_fresh_s1r0() { mpsc_store::step_poll_recv_fresh(1, 0); }

// @obligation id=rv.mpsc_store.poll_recv_fresh.s2r0 props=C01,C06 kind=step tier=quick bound="single-slot receiver store (mpsc); 2 parked senders, 0 parked receivers; counts any <=2; payloads any u8; first poll of a recv future, then the enabling try_send / cancel"
#[kani::proof]
#[kani::stub(std::thread::current::current, crate::verif_k_stubs::stub_thread_current)]
#[kani::stub(parking_lot::RawMutex::lock_slow, crate::verif_k_stubs::stub_lock_slow)]
#[kani::stub(parking_lot::RawMutex::unlock_slow, crate::verif_k_stubs::stub_unlock_slow)]
#[kani::unwind(6)]
fn ob_rv_mpsc_store_poll_recv_fresh_s2r0() { mpsc_store::step_poll_recv_fresh(2, 0); }

// @obligation id=rv.mpsc_store.repoll.s1r0 props=C06 kind=step tier=quick bound="single-slot receiver store (mpsc); 1 parked senders, 0 parked receivers; counts any <=2; payloads any u8; re-poll of a registered future in every waiter state"
#[kani::proof]
#[kani::stub(std::thread::current::current, crate::verif_k_stubs::stub_thread_current)]
#[kani::stub(parking_lot::RawMutex::lock_slow, crate::verif_k_stubs::stub_lock_slow)]
#[kani::stub(parking_lot::RawMutex::unlock_slow, crate::verif_k_stubs::stub_unlock_slow)]
#[kani::unwind(6)]
fn ob_rv_mpsc_store_repoll_s1r0() { mpsc_store::step_repoll(1, 0); }

// @obligation id=rv.mpsc_store.repoll.s2r0 props=C06 kind=step tier=quick bound="single-slot receiver store (mpsc); 2 parked senders, 0 parked receivers; counts any <=2; payloads any u8; re-poll of a registered future in every waiter state"
#[kani::proof]
#[kani::stub(std::thread::current::current, crate::verif_k_stubs::stub_thread_current)]
#[kani::stub(parking_lot::RawMutex::lock_slow, crate::verif_k_stubs::stub_lock_slow)]
#[kani::stub(parking_lot::RawMutex::unlock_slow, crate::verif_k_stubs::stub_unlock_slow)]
#[kani::unwind(6)]
fn ob_rv_mpsc_store_repoll_s2r0() { mpsc_store::step_repoll(2, 0); }

// @obligation id=rv.mpsc_store.repoll.s0r1 props=C06 kind=step tier=quick bound="single-slot receiver store (mpsc); 0 parked senders, 1 parked receivers; counts any <=2; payloads any u8; re-poll of a registered future in every waiter state"
#[kani::proof]
#[kani::stub(std::thread::current::current, crate::verif_k_stubs::stub_thread_current)]
#[kani::stub(parking_lot::RawMutex::lock_slow, crate::verif_k_stubs::stub_lock_slow)]
#[kani::stub(parking_lot::RawMutex::unlock_slow, crate::verif_k_stubs::stub_unlock_slow)]
#[kani::unwind(6)]
fn ob_rv_mpsc_store_repoll_s0r1() { mpsc_store::step_repoll(0, 1); }

// @obligation id=rv.mpsc_store.drop_side.s0r0 props=C04,C06 kind=step tier=quick bound="single-slot receiver store (mpsc); 0 parked senders, 0 parked receivers; counts any <=2; payloads any u8; drop of one sender or receiver handle"
#[kani::proof]
#[kani::stub(std::thread::current::current, crate::verif_k_stubs::stub_thread_current)]
#[kani::stub(parking_lot::RawMutex::lock_slow, crate::verif_k_stubs::stub_lock_slow)]
#[kani::stub(parking_lot::RawMutex::unlock_slow, crate::verif_k_stubs::stub_unlock_slow)]
#[kani::unwind(6)]
fn ob_rv_mpsc_store_drop_side_s0r0() { mpsc_store::step_drop_side(0, 0); }

// @obligation id=rv.mpsc_store.drop_side.s1r0 props=C04,C06 kind=step tier=quick bound="single-slot receiver store (mpsc); 1 parked senders, 0 parked receivers; counts any <=2; payloads any u8; drop of one sender or receiver handle"
#[kani::proof]
#[kani::stub(std::thread::current::current, crate::verif_k_stubs::stub_thread_current)]
#[kani::stub(parking_lot::RawMutex::lock_slow, crate::verif_k_stubs::stub_lock_slow)]
#[kani::stub(parking_lot::RawMutex::unlock_slow, crate::verif_k_stubs::stub_unlock_slow)]
#[kani::unwind(6)]
fn ob_rv_mpsc_store_drop_side_s1r0() { mpsc_store::step_drop_side(1, 0); }

// @obligation id=rv.mpsc_store.drop_side.s2r0 props=C04,C06 kind=step tier=quick bound="single-slot receiver store (mpsc); 2 parked senders, 0 parked receivers; counts any <=2; payloads any u8; drop of one sender or receiver handle"
#[kani::proof]
#[kani::stub(std::thread::current::current, crate::verif_k_stubs::stub_thread_current)]
#[kani::stub(parking_lot::RawMutex::lock_slow, crate::verif_k_stubs::stub_lock_slow)]
#[kani::stub(parking_lot::RawMutex::unlock_slow, crate::verif_k_stubs::stub_unlock_slow)]
#[kani::unwind(6)]
fn ob_rv_mpsc_store_drop_side_s2r0() { mpsc_store::step_drop_side(2, 0); }

// @obligation id=rv.mpsc_store.drop_side.s0r1 props=C04,C06 kind=step tier=quick bound="single-slot receiver store (mpsc); 0 parked senders, 1 parked receivers; counts any <=2; payloads any u8; drop of one sender or receiver handle"
#[kani::proof]
#[kani::stub(std::thread::current::current, crate::verif_k_stubs::stub_thread_current)]
#[kani::stub(parking_lot::RawMutex::lock_slow, crate::verif_k_stubs::stub_lock_slow)]
#[kani::stub(parking_lot::RawMutex::unlock_slow, crate::verif_k_stubs::stub_unlock_slow)]
#[kani::unwind(6)]
fn ob_rv_mpsc_store_drop_side_s0r1() { mpsc_store::step_drop_side(0, 1); }
// @obligation id=rv.mpmc_store.cancel.s1r0i0 props=C01,C06 kind=step tier=quick bound="VecDeque receiver store (mpmc); 1 parked senders, 0 parked receivers; cancel of record 0, then a second cancel; counts any <=2; payloads any u8"
#[kani::proof]
#[kani::stub(std::thread::current::current, crate::verif_k_stubs::stub_thread_current)]
#[kani::stub(parking_lot::RawMutex::lock_slow, crate::verif_k_stubs::stub_lock_slow)]
#[kani::stub(parking_lot::RawMutex::unlock_slow, crate::verif_k_stubs::stub_unlock_slow)]
#[kani::unwind(6)]
fn ob_rv_mpmc_store_cancel_s1r0i0() { mpmc_store::step_cancel(1, 0, 0); }
// @obligation id=rv.mpmc_store.cancel.s2r0i0 props=C01,C06 kind=step tier=quick bound="VecDeque receiver store (mpmc); 2 parked senders, 0 parked receivers; cancel of record 0, then a second cancel; counts any <=2; payloads any u8"
#[kani::proof]
#[kani::stub(std::thread::current::current, crate::verif_k_stubs::stub_thread_current)]
#[kani::stub(parking_lot::RawMutex::lock_slow, crate::verif_k_stubs::stub_lock_slow)]
#[kani::stub(parking_lot::RawMutex::unlock_slow, crate::verif_k_stubs::stub_unlock_slow)]
#[kani::unwind(6)]
fn ob_rv_mpmc_store_cancel_s2r0i0() { mpmc_store::step_cancel(2, 0, 0); }
// @obligation id=rv.mpmc_store.cancel.s2r0i1 props=C01,C06 kind=step tier=quick bound="VecDeque receiver store (mpmc); 2 parked senders, 0 parked receivers; cancel of record 1, then a second cancel; counts any <=2; payloads any u8"
#[kani::proof]
#[kani::stub(std::thread::current::current, crate::verif_k_stubs::stub_thread_current)]
#[kani::stub(parking_lot::RawMutex::lock_slow, crate::verif_k_stubs::stub_lock_slow)]
#[kani::stub(parking_lot::RawMutex::unlock_slow, crate::verif_k_stubs::stub_unlock_slow)]
#[kani::unwind(6)]
fn ob_rv_mpmc_store_cancel_s2r0i1() { mpmc_store::step_cancel(2, 0, 1); }
// @obligation id=rv.mpmc_store.cancel.s0r1i0 props=C01,C06 kind=step tier=quick bound="VecDeque receiver store (mpmc); 0 parked senders, 1 parked receivers; cancel of record 0, then a second cancel; counts any <=2; payloads any u8"
#[kani::proof]
#[kani::stub(std::thread::current::current, crate::verif_k_stubs::stub_thread_current)]
#[kani::stub(parking_lot::RawMutex::lock_slow, crate::verif_k_stubs::stub_lock_slow)]
#[kani::stub(parking_lot::RawMutex::unlock_slow, crate::verif_k_stubs::stub_unlock_slow)]
#[kani::unwind(6)]
fn ob_rv_mpmc_store_cancel_s0r1i0() { mpmc_store::step_cancel(0, 1, 0); }
// @obligation id=rv.mpmc_store.cancel.s0r2i0 props=C01,C06 kind=step tier=quick bound="VecDeque receiver store (mpmc); 0 parked senders, 2 parked receivers; cancel of record 0, then a second cancel; counts any <=2; payloads any u8"
#[kani::proof]
#[kani::stub(std::thread::current::current, crate::verif_k_stubs::stub_thread_current)]
#[kani::stub(parking_lot::RawMutex::lock_slow, crate::verif_k_stubs::stub_lock_slow)]
#[kani::stub(parking_lot::RawMutex::unlock_slow, crate::verif_k_stubs::stub_unlock_slow)]
#[kani::unwind(6)]
fn ob_rv_mpmc_store_cancel_s0r2i0() { mpmc_store::step_cancel(0, 2, 0); }
// @obligation id=rv.mpmc_store.cancel.s0r2i1 props=C01,C06 kind=step tier=quick bound="VecDeque receiver store (mpmc); 0 parked senders, 2 parked receivers; cancel of record 1, then a second cancel; counts any <=2; payloads any u8"
#[kani::proof]
#[kani::stub(std::thread::current::current, crate::verif_k_stubs::stub_thread_current)]
#[kani::stub(parking_lot::RawMutex::lock_slow, crate::verif_k_stubs::stub_lock_slow)]
#[kani::stub(parking_lot::RawMutex::unlock_slow, crate::verif_k_stubs::stub_unlock_slow)]
#[kani::unwind(6)]
fn ob_rv_mpmc_store_cancel_s0r2i1() { mpmc_store::step_cancel(0, 2, 1); }
// @obligation id=rv.mpsc_store.cancel.s1r0i0 props=C01,C06 kind=step tier=quick bound="single-slot receiver store (mpsc); 1 parked senders, 0 parked receivers; cancel of record 0, then a second cancel; counts any <=2; payloads any u8"
#[kani::proof]
#[kani::stub(std::thread::current::current, crate::verif_k_stubs::stub_thread_current)]
#[kani::stub(parking_lot::RawMutex::lock_slow, crate::verif_k_stubs::stub_lock_slow)]
#[kani::stub(parking_lot::RawMutex::unlock_slow, crate::verif_k_stubs::stub_unlock_slow)]
#[kani::unwind(6)]
fn ob_rv_mpsc_store_cancel_s1r0i0() { mpsc_store::step_cancel(1, 0, 0); }
// @obligation id=rv.mpsc_store.cancel.s2r0i0 props=C01,C06 kind=step tier=quick bound="single-slot receiver store (mpsc); 2 parked senders, 0 parked receivers; cancel of record 0, then a second cancel; counts any <=2; payloads any u8"
#[kani::proof]
#[kani::stub(std::thread::current::current, crate::verif_k_stubs::stub_thread_current)]
#[kani::stub(parking_lot::RawMutex::lock_slow, crate::verif_k_stubs::stub_lock_slow)]
#[kani::stub(parking_lot::RawMutex::unlock_slow, crate::verif_k_stubs::stub_unlock_slow)]
#[kani::unwind(6)]
fn ob_rv_mpsc_store_cancel_s2r0i0() { mpsc_store::step_cancel(2, 0, 0); }
// @obligation id=rv.mpsc_store.cancel.s2r0i1 props=C01,C06 kind=step tier=quick bound="single-slot receiver store (mpsc); 2 parked senders, 0 parked receivers; cancel of record 1, then a second cancel; counts any <=2; payloads any u8"
#[kani::proof]
#[kani::stub(std::thread::current::current, crate::verif_k_stubs::stub_thread_current)]
#[kani::stub(parking_lot::RawMutex::lock_slow, crate::verif_k_stubs::stub_lock_slow)]
#[kani::stub(parking_lot::RawMutex::unlock_slow, crate::verif_k_stubs::stub_unlock_slow)]
#[kani::unwind(6)]
fn ob_rv_mpsc_store_cancel_s2r0i1() { mpsc_store::step_cancel(2, 0, 1); }
// @obligation id=rv.mpsc_store.cancel.s0r1i0 props=C01,C06 kind=step tier=quick bound="single-slot receiver store (mpsc); 0 parked senders, 1 parked receivers; cancel of record 0, then a second cancel; counts any <=2; payloads any u8"
#[kani::proof]
#[kani::stub(std::thread::current::current, crate::verif_k_stubs::stub_thread_current)]
#[kani::stub(parking_lot::RawMutex::lock_slow, crate::verif_k_stubs::stub_lock_slow)]
#[kani::stub(parking_lot::RawMutex::unlock_slow, crate::verif_k_stubs::stub_unlock_slow)]
#[kani::unwind(6)]
fn ob_rv_mpsc_store_cancel_s0r1i0() { mpsc_store::step_cancel(0, 1, 0); }

// @obligation id=rv.mpmc_store.cancel_terminal.s2r0S props=C01,C06 kind=step tier=quick bound="VecDeque receiver store (mpmc); 2 parked senders, 0 parked receivers; cancel_sender of an already resolved waiter (DONE, CANCELLED, DISCONNECTED)"
#[kani::proof]
#[kani::stub(std::thread::current::current, crate::verif_k_stubs::stub_thread_current)]
#[kani::stub(parking_lot::RawMutex::lock_slow, crate::verif_k_stubs::stub_lock_slow)]
#[kani::stub(parking_lot::RawMutex::unlock_slow, crate::verif_k_stubs::stub_unlock_slow)]
#[kani::unwind(6)]
fn ob_rv_mpmc_store_cancel_terminal_s2r0_0() { mpmc_store::step_cancel_terminal(2, 0, false); }

// @obligation id=rv.mpmc_store.cancel_terminal.s2r0R props=C01,C06 kind=step tier=quick bound="VecDeque receiver store (mpmc); 2 parked senders, 0 parked receivers; cancel_receiver of an already resolved waiter (DONE, CANCELLED, DISCONNECTED)"
#[kani::proof]
#[kani::stub(std::thread::current::current, crate::verif_k_stubs::stub_thread_current)]
#[kani::stub(parking_lot::RawMutex::lock_slow, crate::verif_k_stubs::stub_lock_slow)]
#[kani::stub(parking_lot::RawMutex::unlock_slow, crate::verif_k_stubs::stub_unlock_slow)]
#[kani::unwind(6)]
fn ob_rv_mpmc_store_cancel_terminal_s2r0_1() { mpmc_store::step_cancel_terminal(2, 0, true); }

// @obligation id=rv.mpmc_store.cancel_terminal.s0r2S props=C01,C06 kind=step tier=quick bound="VecDeque receiver store (mpmc); 0 parked senders, 2 parked receivers; cancel_sender of an already resolved waiter (DONE, CANCELLED, DISCONNECTED)"
#[kani::proof]
#[kani::stub(std::thread::current::current, crate::verif_k_stubs::stub_thread_current)]
#[kani::stub(parking_lot::RawMutex::lock_slow, crate::verif_k_stubs::stub_lock_slow)]
#[kani::stub(parking_lot::RawMutex::unlock_slow, crate::verif_k_stubs::stub_unlock_slow)]
#[kani::unwind(6)]
fn ob_rv_mpmc_store_cancel_terminal_s0r2_0() { mpmc_store::step_cancel_terminal(0, 2, false); }

// @obligation id=rv.mpmc_store.cancel_terminal.s0r2R props=C01,C06 kind=step tier=quick bound="VecDeque receiver store (mpmc); 0 parked senders, 2 parked receivers; cancel_receiver of an already resolved waiter (DONE, CANCELLED, DISCONNECTED)"
#[kani::proof]
#[kani::stub(std::thread::current::current, crate::verif_k_stubs::stub_thread_current)]
#[kani::stub(parking_lot::RawMutex::lock_slow, crate::verif_k_stubs::stub_lock_slow)]
#[kani::stub(parking_lot::RawMutex::unlock_slow, crate::verif_k_stubs::stub_unlock_slow)]
#[kani::unwind(6)]
fn ob_rv_mpmc_store_cancel_terminal_s0r2_1() { mpmc_store::step_cancel_terminal(0, 2, true); }

// @obligation id=rv.mpsc_store.cancel_terminal.s2r0S props=C01,C06 kind=step tier=quick bound="single-slot receiver store (mpsc); 2 parked senders, 0 parked receivers; cancel_sender of an already resolved waiter (DONE, CANCELLED, DISCONNECTED)"
#[kani::proof]
#[kani::stub(std::thread::current::current, crate::verif_k_stubs::stub_thread_current)]
#[kani::stub(parking_lot::RawMutex::lock_slow, crate::verif_k_stubs::stub_lock_slow)]
#[kani::stub(parking_lot::RawMutex::unlock_slow, crate::verif_k_stubs::stub_unlock_slow)]
#[kani::unwind(6)]
fn ob_rv_mpsc_store_cancel_terminal_s2r0_0() { mpsc_store::step_cancel_terminal(2, 0, false); }

// @obligation id=rv.mpsc_store.cancel_terminal.s2r0R props=C01,C06 kind=step tier=quick bound="single-slot receiver store (mpsc); 2 parked senders, 0 parked receivers; cancel_receiver of an already resolved waiter (DONE, CANCELLED, DISCONNECTED)"
#[kani::proof]
#[kani::stub(std::thread::current::current, crate::verif_k_stubs::stub_thread_current)]
#[kani::stub(parking_lot::RawMutex::lock_slow, crate::verif_k_stubs::stub_lock_slow)]
#[kani::stub(parking_lot::RawMutex::unlock_slow, crate::verif_k_stubs::stub_unlock_slow)]
#[kani::unwind(6)]
fn ob_rv_mpsc_store_cancel_terminal_s2r0_1() { mpsc_store::step_cancel_terminal(2, 0, true); }

// @obligation id=rv.mpsc_store.cancel_terminal.s0r1S props=C01,C06 kind=step tier=quick bound="single-slot receiver store (mpsc); 0 parked senders, 1 parked receivers; cancel_sender of an already resolved waiter (DONE, CANCELLED, DISCONNECTED)"
#[kani::proof]
#[kani::stub(std::thread::current::current, crate::verif_k_stubs::stub_thread_current)]
#[kani::stub(parking_lot::RawMutex::lock_slow, crate::verif_k_stubs::stub_lock_slow)]
#[kani::stub(parking_lot::RawMutex::unlock_slow, crate::verif_k_stubs::stub_unlock_slow)]
#[kani::unwind(6)]
fn ob_rv_mpsc_store_cancel_terminal_s0r1_0() { mpsc_store::step_cancel_terminal(0, 1, false); }

// @obligation id=rv.mpsc_store.cancel_terminal.s0r1R props=C01,C06 kind=step tier=quick bound="single-slot receiver store (mpsc); 0 parked senders, 1 parked receivers; cancel_receiver of an already resolved waiter (DONE, CANCELLED, DISCONNECTED)"
#[kani::proof]
#[kani::stub(std::thread::current::current, crate::verif_k_stubs::stub_thread_current)]
#[kani::stub(parking_lot::RawMutex::lock_slow, crate::verif_k_stubs::stub_lock_slow)]
#[kani::stub(parking_lot::RawMutex::unlock_slow, crate::verif_k_stubs::stub_unlock_slow)]
#[kani::unwind(6)]
fn ob_rv_mpsc_store_cancel_terminal_s0r1_1() { mpsc_store::step_cancel_terminal(0, 1, true); }

// ---- cancel vs. handoff at lock granularity (C01.rv.lockinv) ---------------------------
// The module's own rule: "state transitions only ever happen while the mutex is held" and
// "cancellation also takes the lock, so it either finds its still-WAITING record and removes it,
// or observes that the peer already completed the handoff under the lock".
// Contract of cancel_receiver / cancel_sender under interference: for every complete operation of
// another handle that runs before the cancel's lock acquisition,
//    returns true  => no value was moved into / out of the waiter's slot (the peer's operation did not
//                     report success for this waiter), and the record is unlinked;
//    returns false => the waiter's terminal outcome stands.
pub(crate) static mut IL_SH: *const MpmcRvShared<u8> = std::ptr::null();
pub(crate) static mut IL_SENT_OK: bool = false;
pub(crate) static mut IL_RECV_GOT: Option<u8> = None;
pub(crate) static mut IL_OP: u8 = 0;

pub(crate) static mut IL_ARMED: bool = false;
pub(crate) static mut IL_LOCKS: u8 = 0;

fn il_hook() {
  unsafe {
    let sh = &*IL_SH;
    match IL_OP {
      0 => { IL_SENT_OK = sh.try_send(42).is_ok(); }
      1 => { IL_RECV_GOT = sh.try_recv().ok(); }
      2 => { sh.drop_sender(); }
      3 => { sh.drop_receiver(); }
      _ => {}
    }
  }
}

/// Replacement for `core::sync::atomic::atomic_compare_exchange` (what `AtomicU8::compare_exchange`,
/// the waiter-state CAS in cancel_*, expands to): performs the CAS (single thread: read + write) and
/// then, if armed, runs ONE complete operation of another handle.  That is exactly the window between
/// cancel_*'s state CAS and its lock acquisition: "another thread got the core lock first".
/// parking_lot's mutex word uses compare_exchange_weak (a different function) and is not affected.
pub(crate) unsafe fn stub_cas<T: Copy>(dst: *mut T, old: T, new: T, _s: Ordering, _f: Ordering) -> Result<T, T> {
  unsafe {
    let cur: T = *dst;
    let n = std::mem::size_of::<T>();
    let (pc, po) = (&cur as *const T as *const u8, &old as *const T as *const u8);
    let mut eq = true;
    let mut i = 0;
    while i < n { if *pc.add(i) != *po.add(i) { eq = false; } i += 1; }
    if eq { *dst = new; }
    IL_LOCKS += 1;
    // another thread can run its critical section here only if the core lock is free
    if IL_ARMED && !(*IL_SH).core.is_locked() {
      IL_ARMED = false;
      il_hook();
    }
    if eq { Ok(cur) } else { Err(cur) }
  }
}

fn step_cancel_interleaved(recv_side: bool, op: u8) {
  let sh = MpmcRvShared::<u8>::new();
  let mut m = Mem::new();
  let s = if recv_side { any_state(&sh, &mut m, 0, 1) } else { any_state(&sh, &mut m, 1, 0) };
  kani::assume(s.sc >= 1 && s.rc >= 1);
  unsafe {
    IL_SH = &sh as *const _;
    IL_OP = op;
    IL_ARMED = true;
  }
  if recv_side {
    let r = sh.cancel_receiver(&m.r_state[0] as *const AtomicU8, &m.r_state[0]);
    let sent_ok = unsafe { IL_SENT_OK };
    if r {
      // the receiver reports Timeout / its future is dropped: nothing may have been delivered to it
      assert!(!sent_ok, "sender was told Ok but the receiver cancelled: value lost");
      assert!(m.r_dest[0].is_none(), "value sits in the destination of a cancelled receive");
      assert!(sh.k_nr() == 0);
    } else {
      // a sender committed first: delivery stands and the value is there
      assert!(st(&m.r_state[0]) == DONE || st(&m.r_state[0]) == DISCONNECTED);
      if sent_ok { assert!(m.r_dest[0] == Some(42) && st(&m.r_state[0]) == DONE); }
    }
    if sent_ok { assert!(m.r_dest[0] == Some(42)); }
  } else {
    let r = sh.cancel_sender(&m.s_state[0] as *const AtomicU8, &m.s_state[0]);
    let got = unsafe { IL_RECV_GOT };
    if r {
      // the sender keeps its payload (it will hand it back / drop it): nobody may have received it
      assert!(got.is_none(), "cancelled send was delivered as well (duplicate)");
      assert!(m.s_slot[0] == Some(s.items[0]), "payload of a cancelled send is gone");
      assert!(sh.k_ns() == 0);
    } else {
      assert!(st(&m.s_state[0]) == DONE || st(&m.s_state[0]) == DISCONNECTED);
      if let Some(g) = got { assert!(g == s.items[0] && m.s_slot[0].is_none()); }
    }
  }
  assert!(unsafe { IL_LOCKS } >= 1);
  kani::cover!(true, "END");
}

// @obligation id=rv.lockinv.cancel_receiver.try_send props=C01,C06 kind=step tier=quick bound="1 parked receiver; one complete try_send of another handle runs between cancel_receiver's state CAS and its lock acquisition; counts any 1..=2"
#[kani::proof]
#[kani::stub(std::thread::current::current, crate::verif_k_stubs::stub_thread_current)]
#[kani::stub(parking_lot::RawMutex::lock_slow, crate::verif_k_stubs::stub_lock_slow)]
#[kani::stub(parking_lot::RawMutex::unlock_slow, crate::verif_k_stubs::stub_unlock_slow)]
#[kani::stub(std::sync::atomic::atomic_compare_exchange, stub_cas)]
#[kani::unwind(9)]
fn ob_rv_lockinv_cancel_receiver_try_send() { step_cancel_interleaved(true, 0); }

// @obligation id=rv.lockinv.cancel_receiver.try_recv props=C01,C06 kind=step tier=quick bound="1 parked receiver; one complete try_recv of another handle runs between cancel_receiver's state CAS and its lock acquisition; counts any 1..=2"
#[kani::proof]
#[kani::stub(std::thread::current::current, crate::verif_k_stubs::stub_thread_current)]
#[kani::stub(parking_lot::RawMutex::lock_slow, crate::verif_k_stubs::stub_lock_slow)]
#[kani::stub(parking_lot::RawMutex::unlock_slow, crate::verif_k_stubs::stub_unlock_slow)]
#[kani::stub(std::sync::atomic::atomic_compare_exchange, stub_cas)]
#[kani::unwind(9)]
fn ob_rv_lockinv_cancel_receiver_try_recv() { step_cancel_interleaved(true, 1); }

// @obligation id=rv.lockinv.cancel_receiver.drop_sender props=C01,C06 kind=step tier=thorough bound="1 parked receiver; one complete drop_sender of another handle runs between cancel_receiver's state CAS and its lock acquisition; counts any 1..=2"
#[kani::proof]
#[kani::stub(std::thread::current::current, crate::verif_k_stubs::stub_thread_current)]
#[kani::stub(parking_lot::RawMutex::lock_slow, crate::verif_k_stubs::stub_lock_slow)]
#[kani::stub(parking_lot::RawMutex::unlock_slow, crate::verif_k_stubs::stub_unlock_slow)]
#[kani::stub(std::sync::atomic::atomic_compare_exchange, stub_cas)]
#[kani::unwind(9)]
fn ob_rv_lockinv_cancel_receiver_drop_sender() { step_cancel_interleaved(true, 2); }

// @obligation id=rv.lockinv.cancel_receiver.drop_receiver props=C01,C06 kind=step tier=quick bound="1 parked receiver; one complete drop_receiver of another handle runs between cancel_receiver's state CAS and its lock acquisition; counts any 1..=2"
#[kani::proof]
#[kani::stub(std::thread::current::current, crate::verif_k_stubs::stub_thread_current)]
#[kani::stub(parking_lot::RawMutex::lock_slow, crate::verif_k_stubs::stub_lock_slow)]
#[kani::stub(parking_lot::RawMutex::unlock_slow, crate::verif_k_stubs::stub_unlock_slow)]
#[kani::stub(std::sync::atomic::atomic_compare_exchange, stub_cas)]
#[kani::unwind(9)]
fn ob_rv_lockinv_cancel_receiver_drop_receiver() { step_cancel_interleaved(true, 3); }

// @obligation id=rv.lockinv.cancel_receiver.nothing props=C01,C06 kind=step tier=quick bound="1 parked receiver; one complete nothing of another handle runs between cancel_receiver's state CAS and its lock acquisition; counts any 1..=2"
#[kani::proof]
#[kani::stub(std::thread::current::current, crate::verif_k_stubs::stub_thread_current)]
#[kani::stub(parking_lot::RawMutex::lock_slow, crate::verif_k_stubs::stub_lock_slow)]
#[kani::stub(parking_lot::RawMutex::unlock_slow, crate::verif_k_stubs::stub_unlock_slow)]
#[kani::stub(std::sync::atomic::atomic_compare_exchange, stub_cas)]
#[kani::unwind(9)]
fn ob_rv_lockinv_cancel_receiver_nothing() { step_cancel_interleaved(true, 4); }

// @obligation id=rv.lockinv.cancel_sender.try_send props=C01,C06 kind=step tier=quick bound="1 parked sender; one complete try_send of another handle runs between cancel_sender's state CAS and its lock acquisition; counts any 1..=2"
#[kani::proof]
#[kani::stub(std::thread::current::current, crate::verif_k_stubs::stub_thread_current)]
#[kani::stub(parking_lot::RawMutex::lock_slow, crate::verif_k_stubs::stub_lock_slow)]
#[kani::stub(parking_lot::RawMutex::unlock_slow, crate::verif_k_stubs::stub_unlock_slow)]
#[kani::stub(std::sync::atomic::atomic_compare_exchange, stub_cas)]
#[kani::unwind(9)]
fn ob_rv_lockinv_cancel_sender_try_send() { step_cancel_interleaved(false, 0); }

// @obligation id=rv.lockinv.cancel_sender.try_recv props=C01,C06 kind=step tier=quick bound="1 parked sender; one complete try_recv of another handle runs between cancel_sender's state CAS and its lock acquisition; counts any 1..=2"
#[kani::proof]
#[kani::stub(std::thread::current::current, crate::verif_k_stubs::stub_thread_current)]
#[kani::stub(parking_lot::RawMutex::lock_slow, crate::verif_k_stubs::stub_lock_slow)]
#[kani::stub(parking_lot::RawMutex::unlock_slow, crate::verif_k_stubs::stub_unlock_slow)]
#[kani::stub(std::sync::atomic::atomic_compare_exchange, stub_cas)]
#[kani::unwind(9)]
fn ob_rv_lockinv_cancel_sender_try_recv() { step_cancel_interleaved(false, 1); }

// @obligation id=rv.lockinv.cancel_sender.drop_sender props=C01,C06 kind=step tier=quick bound="1 parked sender; one complete drop_sender of another handle runs between cancel_sender's state CAS and its lock acquisition; counts any 1..=2"
#[kani::proof]
#[kani::stub(std::thread::current::current, crate::verif_k_stubs::stub_thread_current)]
#[kani::stub(parking_lot::RawMutex::lock_slow, crate::verif_k_stubs::stub_lock_slow)]
#[kani::stub(parking_lot::RawMutex::unlock_slow, crate::verif_k_stubs::stub_unlock_slow)]
#[kani::stub(std::sync::atomic::atomic_compare_exchange, stub_cas)]
#[kani::unwind(9)]
fn ob_rv_lockinv_cancel_sender_drop_sender() { step_cancel_interleaved(false, 2); }

// @obligation id=rv.lockinv.cancel_sender.drop_receiver props=C01,C06 kind=step tier=thorough bound="1 parked sender; one complete drop_receiver of another handle runs between cancel_sender's state CAS and its lock acquisition; counts any 1..=2"
#[kani::proof]
#[kani::stub(std::thread::current::current, crate::verif_k_stubs::stub_thread_current)]
#[kani::stub(parking_lot::RawMutex::lock_slow, crate::verif_k_stubs::stub_lock_slow)]
#[kani::stub(parking_lot::RawMutex::unlock_slow, crate::verif_k_stubs::stub_unlock_slow)]
#[kani::stub(std::sync::atomic::atomic_compare_exchange, stub_cas)]
#[kani::unwind(9)]
fn ob_rv_lockinv_cancel_sender_drop_receiver() { step_cancel_interleaved(false, 3); }

// @obligation id=rv.lockinv.cancel_sender.nothing props=C01,C06 kind=step tier=quick bound="1 parked sender; one complete nothing of another handle runs between cancel_sender's state CAS and its lock acquisition; counts any 1..=2"
#[kani::proof]
#[kani::stub(std::thread::current::current, crate::verif_k_stubs::stub_thread_current)]
#[kani::stub(parking_lot::RawMutex::lock_slow, crate::verif_k_stubs::stub_lock_slow)]
#[kani::stub(parking_lot::RawMutex::unlock_slow, crate::verif_k_stubs::stub_unlock_slow)]
#[kani::stub(std::sync::atomic::atomic_compare_exchange, stub_cas)]
#[kani::unwind(9)]
fn ob_rv_lockinv_cancel_sender_nothing() { step_cancel_interleaved(false, 4); }
