// @unit crate=fibre file=channels/src/spmc/topic/mailbox.rs
// @needs fibre/stubs.rs
// @needs fibre/vshim.rs
// @swap from="use std::collections::VecDeque;" to="#[cfg(kani)] use crate::verif_k_vshim::VecDeque; #[cfg(not(kani))] use std::collections::VecDeque;"
// Step contracts for the topic mailbox (everything under one parking_lot::Mutex): the per-receiver buffer of the
// topic pub/sub channel.  View: the VecDeque contents, oldest first.  I-mbox: len <= capacity.
// MEASURED LIMIT: with std's VecDeque, as soon as push_back is reachable (any non-empty buffer, any deliver) CBMC's
// propositional reduction exceeds 16 GB within a minute (u8 and u64 payloads alike).  The buffer type is therefore
// swapped, under cfg(kani) only, for the Vec-backed stand-in of vshim.rs (an executable statement of the deque's
// assumed contract); the mailbox code itself is untouched.
// Only Async waiters are constructed (a `Thread` handle cannot be created under Kani; stated).
use super::*;
use crate::verif_k_stubs::*;

const MAXN: usize = 4;
static mut FILL: usize = 0;

struct Shape { n: usize, items: [u8; MAXN], disc: bool, waiting: bool, dropped: u64 }

/// arbitrary well-formed mailbox: capacity `cap`, n <= cap buffered values (any u8), is_disconnected any,
/// an async consumer (waker 0) registered or not, dropped_count any
fn any_state(p: &MailboxProducer<u8>, cap: usize) -> Shape {
  // the NUMBER of buffered values is fixed per harness instance (FILL); their contents are symbolic
  let n: usize = unsafe { FILL };
  assert!(n <= cap);
  let items: [u8; MAXN] = kani::any();
  let disc: bool = kani::any();
  let waiting: bool = kani::any();
  let dropped: u64 = kani::any();
  kani::assume(dropped < u64::MAX);
  {
    let mut g = p.shared.internal.lock();
    let mut i = 0;
    while i < MAXN { if i < n { g.buffer.push_back(items[i]); } i += 1; }
    g.is_disconnected = disc;
    g.dropped_count = dropped;
    if waiting { g.consumer_waiter = Some(Waiter::Async(waker(0))); }
  }
  Shape { n, items, disc, waiting, dropped }
}
fn view(sh: &MailboxShared<u8>) -> ([u8; MAXN], usize) {
  let g = sh.internal.lock();
  let n = g.buffer.len();
  let mut out = [0u8; MAXN];
  let mut i = 0;
  while i < MAXN { if i < n { out[i] = g.buffer[i]; } i += 1; }
  (out, n)
}
fn flags(sh: &MailboxShared<u8>) -> (bool, bool, u64, usize) {
  let g = sh.internal.lock();
  (g.is_disconnected, g.consumer_waiter.is_some(), g.dropped_count, g.capacity)
}
fn same_prefix(a: &[u8; MAXN], b: &[u8; MAXN], n: usize) -> bool {
  let mut ok = true; let mut i = 0;
  while i < MAXN { if i < n && a[i] != b[i] { ok = false; } i += 1; }
  ok
}

/// deliver: the ONLY permitted omission is the newest message when the mailbox is full; otherwise the value is
/// appended (FIFO) and a registered consumer is woken exactly once; publishing never blocks.
fn step_deliver(cap: usize) {
  let (p, c) = channel::<u8>(cap);
  let s = any_state(&p, cap);
  let x: u8 = kani::any();
  p.deliver(x);
  let (v, n2) = view(&p.shared);
  let (disc, waiting, dropped, cap2) = flags(&p.shared);
  assert!(cap2 == cap && disc == s.disc && n2 <= cap);
  assert!(same_prefix(&s.items, &v, s.n));
  if s.n == cap {
    assert!(n2 == s.n && dropped == s.dropped + 1);
    assert!(waiting == s.waiting && wakes(0) == 0);
    kani::cover!(true);
  } else {
    assert!(n2 == s.n + 1 && v[s.n] == x && dropped == s.dropped);
    assert!(!waiting && wakes(0) == if s.waiting { 1 } else { 0 });
    kani::cover!(true);
  }
  std::mem::forget(p); std::mem::forget(c);
  kani::cover!(true, "END");
}

/// try_recv: oldest value first; Disconnected only when the buffer is drained AND the sender side is gone; a failed
/// receive consumes nothing; the waiter registration is not touched.
fn step_try_recv(cap: usize) {
  let (p, c) = channel::<u8>(cap);
  let s = any_state(&p, cap);
  let r = c.try_recv();
  let (v, n2) = view(&p.shared);
  let (disc, waiting, dropped, _) = flags(&p.shared);
  assert!(disc == s.disc && waiting == s.waiting && dropped == s.dropped && wakes(0) == 0);
  match r {
    Ok(y) => { assert!(s.n > 0 && y == s.items[0] && n2 == s.n - 1); let mut i = 0; while i + 1 < MAXN { if i + 1 < s.n { assert!(v[i] == s.items[i + 1]); } i += 1; } kani::cover!(true); }
    Err(TryRecvError::Disconnected) => { assert!(s.n == 0 && s.disc && n2 == 0); kani::cover!(true); }
    Err(TryRecvError::Empty) => { assert!(s.n == 0 && !s.disc && n2 == 0); kani::cover!(true); }
  }
  std::mem::forget(p); std::mem::forget(c);
  kani::cover!(true, "END");
}

/// RecvFuture::poll with waker 1: same results as try_recv; Pending <=> empty and connected, and then the mailbox
/// holds a waker that will wake THIS task (a stale registration is replaced).
fn step_poll(cap: usize) {
  let (p, c) = channel::<u8>(cap);
  let s = any_state(&p, cap);
  let w = waker(1);
  let mut cx = Context::from_waker(&w);
  let mut f = c.recv_async();
  let r = Pin::new(&mut f).poll(&mut cx);
  let (_v, n2) = view(&p.shared);
  let (disc, waiting, dropped, _) = flags(&p.shared);
  assert!(disc == s.disc && dropped == s.dropped && wakes(0) == 0 && wakes(1) == 0);
  match r {
    Poll::Ready(Ok(y)) => { assert!(s.n > 0 && y == s.items[0] && n2 == s.n - 1); kani::cover!(true); }
    Poll::Ready(Err(RecvError::Disconnected)) => { assert!(s.n == 0 && s.disc); kani::cover!(true); }
    Poll::Pending => {
      assert!(s.n == 0 && !s.disc && waiting);
      let ok = match &p.shared.internal.lock().consumer_waiter { Some(Waiter::Async(k)) => k.will_wake(&w), _ => false };
      assert!(ok, "Pending but the registered waker is not mine");
      // ... and the next delivery wakes it
      p.deliver(7);
      assert!(wakes(1) == 1 && wakes(0) == 0);
      kani::cover!(true);
    }
  }
  drop(f);
  std::mem::forget(p); std::mem::forget(c);
  kani::cover!(true, "END");
}

/// disconnect (and Drop of the producer): flag set, a registered consumer woken exactly once, buffered values kept:
/// the consumer still drains them before it sees Disconnected.
fn step_disconnect(cap: usize, by_drop: bool) {
  let (p, c) = channel::<u8>(cap);
  let s = any_state(&p, cap);
  let sh = p.shared.clone();
  if by_drop { drop(p); } else { p.disconnect(); p.disconnect(); std::mem::forget(p); }
  let (v, n2) = view(&sh);
  let (disc, waiting, dropped, _) = flags(&sh);
  assert!(disc && n2 == s.n && same_prefix(&s.items, &v, s.n) && dropped == s.dropped);
  if s.disc { assert!(waiting == s.waiting && wakes(0) == 0); } else { assert!(!waiting && wakes(0) == if s.waiting { 1 } else { 0 }); }
  // drain then Disconnected, and it stays Disconnected
  let mut i = 0;
  while i < MAXN { if i < s.n { assert!(c.try_recv() == Ok(s.items[i])); } i += 1; }
  assert!(matches!(c.try_recv(), Err(TryRecvError::Disconnected)));
  assert!(matches!(c.try_recv(), Err(TryRecvError::Disconnected)));
  std::mem::forget(c); std::mem::forget(sh);
  kani::cover!(true, "END");
}

/// the blocking forms, from every state in which they must return without parking (buffer non-empty, or drained and
/// disconnected): the OLDEST buffered value first, Disconnected only when the buffer is empty.  (The parking path
/// needs a Thread handle and is not decided.)
fn step_recv_sync(cap: usize, timed: bool) {
  let (p, c) = channel::<u8>(cap);
  let s = any_state(&p, cap);
  kani::assume(s.n > 0 || s.disc);
  let r: Result<u8, bool> = if timed {
    match c.recv_timeout_sync(std::time::Duration::from_millis(5)) { Ok(v) => Ok(v), Err(RecvErrorTimeout::Disconnected) => Err(true), Err(RecvErrorTimeout::Timeout) => Err(false) }
  } else {
    match c.recv_sync() { Ok(v) => Ok(v), Err(RecvError::Disconnected) => Err(true) }
  };
  let (_v, n2) = view(&p.shared);
  match r {
    Ok(y) => { assert!(s.n > 0 && y == s.items[0] && n2 == s.n - 1); kani::cover!(true); }
    Err(disc) => { assert!(s.n == 0 && s.disc && disc && n2 == 0, "Disconnected / Timeout reported although a value was buffered"); kani::cover!(true); }
  }
  std::mem::forget(p); std::mem::forget(c);
  kani::cover!(true, "END");
}
pub(crate) fn stub_instant_now() -> std::time::Instant { unsafe { std::mem::zeroed() } }

// @obligation id=mbox.deliver.cap1n0 props=C08 kind=step tier=quick bound="capacity 1, 0 buffered value(s) (any u8), is_disconnected any, async consumer registered or not, dropped_count any; buffer type = Vec-backed VecDeque stand-in"
#[kani::proof]
#[kani::stub(std::thread::current::current, crate::verif_k_stubs::stub_thread_current)]
#[kani::stub(parking_lot::RawMutex::lock_slow, crate::verif_k_stubs::stub_lock_slow)]
#[kani::stub(parking_lot::RawMutex::unlock_slow, crate::verif_k_stubs::stub_unlock_slow)]
#[kani::unwind(6)]
fn ob_mbox_deliver_cap1n0() { unsafe { FILL = 0; } step_deliver(1); }

// @obligation id=mbox.try_recv.cap1n0 props=C08,C04 kind=step tier=quick bound="capacity 1, 0 buffered value(s) (any u8), is_disconnected any, async consumer registered or not, dropped_count any; buffer type = Vec-backed VecDeque stand-in"
#[kani::proof]
#[kani::stub(std::thread::current::current, crate::verif_k_stubs::stub_thread_current)]
#[kani::stub(parking_lot::RawMutex::lock_slow, crate::verif_k_stubs::stub_lock_slow)]
#[kani::stub(parking_lot::RawMutex::unlock_slow, crate::verif_k_stubs::stub_unlock_slow)]
#[kani::unwind(6)]
fn ob_mbox_try_recv_cap1n0() { unsafe { FILL = 0; } step_try_recv(1); }

// @obligation id=mbox.poll.cap1n0 props=C08,C06 kind=step tier=quick bound="capacity 1, 0 buffered value(s) (any u8), is_disconnected any, async consumer registered or not, dropped_count any; buffer type = Vec-backed VecDeque stand-in; poll with a different waker"
#[kani::proof]
#[kani::stub(std::thread::current::current, crate::verif_k_stubs::stub_thread_current)]
#[kani::stub(parking_lot::RawMutex::lock_slow, crate::verif_k_stubs::stub_lock_slow)]
#[kani::stub(parking_lot::RawMutex::unlock_slow, crate::verif_k_stubs::stub_unlock_slow)]
#[kani::unwind(6)]
fn ob_mbox_poll_cap1n0() { unsafe { FILL = 0; } step_poll(1); }

// @obligation id=mbox.deliver.cap1n1 props=C08 kind=step tier=quick bound="capacity 1, 1 buffered value(s) (any u8), is_disconnected any, async consumer registered or not, dropped_count any; buffer type = Vec-backed VecDeque stand-in"
#[kani::proof]
#[kani::stub(std::thread::current::current, crate::verif_k_stubs::stub_thread_current)]
#[kani::stub(parking_lot::RawMutex::lock_slow, crate::verif_k_stubs::stub_lock_slow)]
#[kani::stub(parking_lot::RawMutex::unlock_slow, crate::verif_k_stubs::stub_unlock_slow)]
#[kani::unwind(6)]
fn ob_mbox_deliver_cap1n1() { unsafe { FILL = 1; } step_deliver(1); }

// @obligation id=mbox.try_recv.cap1n1 props=C08,C04 kind=step tier=quick bound="capacity 1, 1 buffered value(s) (any u8), is_disconnected any, async consumer registered or not, dropped_count any; buffer type = Vec-backed VecDeque stand-in"
#[kani::proof]
#[kani::stub(std::thread::current::current, crate::verif_k_stubs::stub_thread_current)]
#[kani::stub(parking_lot::RawMutex::lock_slow, crate::verif_k_stubs::stub_lock_slow)]
#[kani::stub(parking_lot::RawMutex::unlock_slow, crate::verif_k_stubs::stub_unlock_slow)]
#[kani::unwind(6)]
fn ob_mbox_try_recv_cap1n1() { unsafe { FILL = 1; } step_try_recv(1); }

// @obligation id=mbox.poll.cap1n1 props=C08,C06 kind=step tier=quick bound="capacity 1, 1 buffered value(s) (any u8), is_disconnected any, async consumer registered or not, dropped_count any; buffer type = Vec-backed VecDeque stand-in; poll with a different waker"
#[kani::proof]
#[kani::stub(std::thread::current::current, crate::verif_k_stubs::stub_thread_current)]
#[kani::stub(parking_lot::RawMutex::lock_slow, crate::verif_k_stubs::stub_lock_slow)]
#[kani::stub(parking_lot::RawMutex::unlock_slow, crate::verif_k_stubs::stub_unlock_slow)]
#[kani::unwind(6)]
fn ob_mbox_poll_cap1n1() { unsafe { FILL = 1; } step_poll(1); }

// @obligation id=mbox.deliver.cap2n0 props=C08 kind=step tier=quick bound="capacity 2, 0 buffered value(s) (any u8), is_disconnected any, async consumer registered or not, dropped_count any; buffer type = Vec-backed VecDeque stand-in"
#[kani::proof]
#[kani::stub(std::thread::current::current, crate::verif_k_stubs::stub_thread_current)]
#[kani::stub(parking_lot::RawMutex::lock_slow, crate::verif_k_stubs::stub_lock_slow)]
#[kani::stub(parking_lot::RawMutex::unlock_slow, crate::verif_k_stubs::stub_unlock_slow)]
#[kani::unwind(6)]
fn ob_mbox_deliver_cap2n0() { unsafe { FILL = 0; } step_deliver(2); }

// @obligation id=mbox.try_recv.cap2n0 props=C08,C04 kind=step tier=quick bound="capacity 2, 0 buffered value(s) (any u8), is_disconnected any, async consumer registered or not, dropped_count any; buffer type = Vec-backed VecDeque stand-in"
#[kani::proof]
#[kani::stub(std::thread::current::current, crate::verif_k_stubs::stub_thread_current)]
#[kani::stub(parking_lot::RawMutex::lock_slow, crate::verif_k_stubs::stub_lock_slow)]
#[kani::stub(parking_lot::RawMutex::unlock_slow, crate::verif_k_stubs::stub_unlock_slow)]
#[kani::unwind(6)]
fn ob_mbox_try_recv_cap2n0() { unsafe { FILL = 0; } step_try_recv(2); }

// @obligation id=mbox.poll.cap2n0 props=C08,C06 kind=step tier=quick bound="capacity 2, 0 buffered value(s) (any u8), is_disconnected any, async consumer registered or not, dropped_count any; buffer type = Vec-backed VecDeque stand-in; poll with a different waker"
#[kani::proof]
#[kani::stub(std::thread::current::current, crate::verif_k_stubs::stub_thread_current)]
#[kani::stub(parking_lot::RawMutex::lock_slow, crate::verif_k_stubs::stub_lock_slow)]
#[kani::stub(parking_lot::RawMutex::unlock_slow, crate::verif_k_stubs::stub_unlock_slow)]
#[kani::unwind(6)]
fn ob_mbox_poll_cap2n0() { unsafe { FILL = 0; } step_poll(2); }

// @obligation id=mbox.deliver.cap2n1 props=C08 kind=step tier=quick bound="capacity 2, 1 buffered value(s) (any u8), is_disconnected any, async consumer registered or not, dropped_count any; buffer type = Vec-backed VecDeque stand-in"
#[kani::proof]
#[kani::stub(std::thread::current::current, crate::verif_k_stubs::stub_thread_current)]
#[kani::stub(parking_lot::RawMutex::lock_slow, crate::verif_k_stubs::stub_lock_slow)]
#[kani::stub(parking_lot::RawMutex::unlock_slow, crate::verif_k_stubs::stub_unlock_slow)]
#[kani::unwind(6)]
fn ob_mbox_deliver_cap2n1() { unsafe { FILL = 1; } step_deliver(2); }

// @obligation id=mbox.try_recv.cap2n1 props=C08,C04 kind=step tier=quick bound="capacity 2, 1 buffered value(s) (any u8), is_disconnected any, async consumer registered or not, dropped_count any; buffer type = Vec-backed VecDeque stand-in"
#[kani::proof]
#[kani::stub(std::thread::current::current, crate::verif_k_stubs::stub_thread_current)]
#[kani::stub(parking_lot::RawMutex::lock_slow, crate::verif_k_stubs::stub_lock_slow)]
#[kani::stub(parking_lot::RawMutex::unlock_slow, crate::verif_k_stubs::stub_unlock_slow)]
#[kani::unwind(6)]
fn ob_mbox_try_recv_cap2n1() { unsafe { FILL = 1; } step_try_recv(2); }

// @obligation id=mbox.poll.cap2n1 props=C08,C06 kind=step tier=quick bound="capacity 2, 1 buffered value(s) (any u8), is_disconnected any, async consumer registered or not, dropped_count any; buffer type = Vec-backed VecDeque stand-in; poll with a different waker"
#[kani::proof]
#[kani::stub(std::thread::current::current, crate::verif_k_stubs::stub_thread_current)]
#[kani::stub(parking_lot::RawMutex::lock_slow, crate::verif_k_stubs::stub_lock_slow)]
#[kani::stub(parking_lot::RawMutex::unlock_slow, crate::verif_k_stubs::stub_unlock_slow)]
#[kani::unwind(6)]
fn ob_mbox_poll_cap2n1() { unsafe { FILL = 1; } step_poll(2); }

// @obligation id=mbox.deliver.cap2n2 props=C08 kind=step tier=quick bound="capacity 2, 2 buffered value(s) (any u8), is_disconnected any, async consumer registered or not, dropped_count any; buffer type = Vec-backed VecDeque stand-in"
#[kani::proof]
#[kani::stub(std::thread::current::current, crate::verif_k_stubs::stub_thread_current)]
#[kani::stub(parking_lot::RawMutex::lock_slow, crate::verif_k_stubs::stub_lock_slow)]
#[kani::stub(parking_lot::RawMutex::unlock_slow, crate::verif_k_stubs::stub_unlock_slow)]
#[kani::unwind(6)]
fn ob_mbox_deliver_cap2n2() { unsafe { FILL = 2; } step_deliver(2); }

// @obligation id=mbox.try_recv.cap2n2 props=C08,C04 kind=step tier=quick bound="capacity 2, 2 buffered value(s) (any u8), is_disconnected any, async consumer registered or not, dropped_count any; buffer type = Vec-backed VecDeque stand-in"
#[kani::proof]
#[kani::stub(std::thread::current::current, crate::verif_k_stubs::stub_thread_current)]
#[kani::stub(parking_lot::RawMutex::lock_slow, crate::verif_k_stubs::stub_lock_slow)]
#[kani::stub(parking_lot::RawMutex::unlock_slow, crate::verif_k_stubs::stub_unlock_slow)]
#[kani::unwind(6)]
fn ob_mbox_try_recv_cap2n2() { unsafe { FILL = 2; } step_try_recv(2); }

// @obligation id=mbox.poll.cap2n2 props=C08,C06 kind=step tier=quick bound="capacity 2, 2 buffered value(s) (any u8), is_disconnected any, async consumer registered or not, dropped_count any; buffer type = Vec-backed VecDeque stand-in; poll with a different waker"
#[kani::proof]
#[kani::stub(std::thread::current::current, crate::verif_k_stubs::stub_thread_current)]
#[kani::stub(parking_lot::RawMutex::lock_slow, crate::verif_k_stubs::stub_lock_slow)]
#[kani::stub(parking_lot::RawMutex::unlock_slow, crate::verif_k_stubs::stub_unlock_slow)]
#[kani::unwind(6)]
fn ob_mbox_poll_cap2n2() { unsafe { FILL = 2; } step_poll(2); }

// @obligation id=mbox.disconnect.cap2n0 props=C08,C04,C06 kind=step tier=quick bound="capacity 2, 0 buffered values, flags any; disconnect twice, then drain; Vec-backed VecDeque stand-in"
#[kani::proof]
#[kani::stub(std::thread::current::current, crate::verif_k_stubs::stub_thread_current)]
#[kani::stub(parking_lot::RawMutex::lock_slow, crate::verif_k_stubs::stub_lock_slow)]
#[kani::stub(parking_lot::RawMutex::unlock_slow, crate::verif_k_stubs::stub_unlock_slow)]
#[kani::unwind(6)]
fn ob_mbox_disconnect_cap2n0() { unsafe { FILL = 0; } step_disconnect(2, false); }

// @obligation id=mbox.drop_producer.cap2n0 props=C08,C04,C06 kind=step tier=quick bound="capacity 2, 0 buffered values, flags any; producer dropped, then drain; Vec-backed VecDeque stand-in"
#[kani::proof]
#[kani::stub(std::thread::current::current, crate::verif_k_stubs::stub_thread_current)]
#[kani::stub(parking_lot::RawMutex::lock_slow, crate::verif_k_stubs::stub_lock_slow)]
#[kani::stub(parking_lot::RawMutex::unlock_slow, crate::verif_k_stubs::stub_unlock_slow)]
#[kani::unwind(6)]
fn ob_mbox_drop_producer_cap2n0() { unsafe { FILL = 0; } step_disconnect(2, true); }

// @obligation id=mbox.disconnect.cap2n2 props=C08,C04,C06 kind=step tier=quick bound="capacity 2, 2 buffered values, flags any; disconnect twice, then drain; Vec-backed VecDeque stand-in"
#[kani::proof]
#[kani::stub(std::thread::current::current, crate::verif_k_stubs::stub_thread_current)]
#[kani::stub(parking_lot::RawMutex::lock_slow, crate::verif_k_stubs::stub_lock_slow)]
#[kani::stub(parking_lot::RawMutex::unlock_slow, crate::verif_k_stubs::stub_unlock_slow)]
#[kani::unwind(6)]
fn ob_mbox_disconnect_cap2n2() { unsafe { FILL = 2; } step_disconnect(2, false); }

// @obligation id=mbox.drop_producer.cap2n2 props=C08,C04,C06 kind=step tier=quick bound="capacity 2, 2 buffered values, flags any; producer dropped, then drain; Vec-backed VecDeque stand-in"
#[kani::proof]
#[kani::stub(std::thread::current::current, crate::verif_k_stubs::stub_thread_current)]
#[kani::stub(parking_lot::RawMutex::lock_slow, crate::verif_k_stubs::stub_lock_slow)]
#[kani::stub(parking_lot::RawMutex::unlock_slow, crate::verif_k_stubs::stub_unlock_slow)]
#[kani::unwind(6)]
fn ob_mbox_drop_producer_cap2n2() { unsafe { FILL = 2; } step_disconnect(2, true); }

// @obligation id=mbox.recvn0 props=C08,C04 kind=step tier=quick bound="capacity 2, 0 buffered value(s), flags any, restricted to states in which the call returns without parking; Vec-free array deque stand-in"
#[kani::proof]
#[kani::stub(std::thread::current::current, crate::verif_k_stubs::stub_thread_current)]
#[kani::stub(parking_lot::RawMutex::lock_slow, crate::verif_k_stubs::stub_lock_slow)]
#[kani::stub(parking_lot::RawMutex::unlock_slow, crate::verif_k_stubs::stub_unlock_slow)]
#[kani::stub(std::thread::park, crate::verif_k_stubs::stub_park)]
#[kani::stub(std::thread::park_timeout, crate::verif_k_stubs::stub_park_timeout)]
#[kani::stub(std::time::Instant::now, stub_instant_now)]
#[kani::unwind(6)]
fn ob_mbox_recvn0() { unsafe { FILL = 0; } step_recv_sync(2, false); }

// @obligation id=mbox.recv_timeoutn0 props=C08,C04 kind=step tier=quick bound="capacity 2, 0 buffered value(s), flags any, restricted to states in which the call returns without parking; Vec-free array deque stand-in"
#[kani::proof]
#[kani::stub(std::thread::current::current, crate::verif_k_stubs::stub_thread_current)]
#[kani::stub(parking_lot::RawMutex::lock_slow, crate::verif_k_stubs::stub_lock_slow)]
#[kani::stub(parking_lot::RawMutex::unlock_slow, crate::verif_k_stubs::stub_unlock_slow)]
#[kani::stub(std::thread::park, crate::verif_k_stubs::stub_park)]
#[kani::stub(std::thread::park_timeout, crate::verif_k_stubs::stub_park_timeout)]
#[kani::stub(std::time::Instant::now, stub_instant_now)]
#[kani::unwind(6)]
fn ob_mbox_recv_timeoutn0() { unsafe { FILL = 0; } step_recv_sync(2, true); }

// @obligation id=mbox.recvn1 props=C08,C04 kind=step tier=quick bound="capacity 2, 1 buffered value(s), flags any, restricted to states in which the call returns without parking; Vec-free array deque stand-in"
#[kani::proof]
#[kani::stub(std::thread::current::current, crate::verif_k_stubs::stub_thread_current)]
#[kani::stub(parking_lot::RawMutex::lock_slow, crate::verif_k_stubs::stub_lock_slow)]
#[kani::stub(parking_lot::RawMutex::unlock_slow, crate::verif_k_stubs::stub_unlock_slow)]
#[kani::stub(std::thread::park, crate::verif_k_stubs::stub_park)]
#[kani::stub(std::thread::park_timeout, crate::verif_k_stubs::stub_park_timeout)]
#[kani::stub(std::time::Instant::now, stub_instant_now)]
#[kani::unwind(6)]
fn ob_mbox_recvn1() { unsafe { FILL = 1; } step_recv_sync(2, false); }

// @obligation id=mbox.recv_timeoutn1 props=C08,C04 kind=step tier=quick bound="capacity 2, 1 buffered value(s), flags any, restricted to states in which the call returns without parking; Vec-free array deque stand-in"
#[kani::proof]
#[kani::stub(std::thread::current::current, crate::verif_k_stubs::stub_thread_current)]
#[kani::stub(parking_lot::RawMutex::lock_slow, crate::verif_k_stubs::stub_lock_slow)]
#[kani::stub(parking_lot::RawMutex::unlock_slow, crate::verif_k_stubs::stub_unlock_slow)]
#[kani::stub(std::thread::park, crate::verif_k_stubs::stub_park)]
#[kani::stub(std::thread::park_timeout, crate::verif_k_stubs::stub_park_timeout)]
#[kani::stub(std::time::Instant::now, stub_instant_now)]
#[kani::unwind(6)]
fn ob_mbox_recv_timeoutn1() { unsafe { FILL = 1; } step_recv_sync(2, true); }

// @obligation id=mbox.recvn2 props=C08,C04 kind=step tier=quick bound="capacity 2, 2 buffered value(s), flags any, restricted to states in which the call returns without parking; Vec-free array deque stand-in"
#[kani::proof]
#[kani::stub(std::thread::current::current, crate::verif_k_stubs::stub_thread_current)]
#[kani::stub(parking_lot::RawMutex::lock_slow, crate::verif_k_stubs::stub_lock_slow)]
#[kani::stub(parking_lot::RawMutex::unlock_slow, crate::verif_k_stubs::stub_unlock_slow)]
#[kani::stub(std::thread::park, crate::verif_k_stubs::stub_park)]
#[kani::stub(std::thread::park_timeout, crate::verif_k_stubs::stub_park_timeout)]
#[kani::stub(std::time::Instant::now, stub_instant_now)]
#[kani::unwind(6)]
fn ob_mbox_recvn2() { unsafe { FILL = 2; } step_recv_sync(2, false); }

// @obligation id=mbox.recv_timeoutn2 props=C08,C04 kind=step tier=quick bound="capacity 2, 2 buffered value(s), flags any, restricted to states in which the call returns without parking; Vec-free array deque stand-in"
#[kani::proof]
#[kani::stub(std::thread::current::current, crate::verif_k_stubs::stub_thread_current)]
#[kani::stub(parking_lot::RawMutex::lock_slow, crate::verif_k_stubs::stub_lock_slow)]
#[kani::stub(parking_lot::RawMutex::unlock_slow, crate::verif_k_stubs::stub_unlock_slow)]
#[kani::stub(std::thread::park, crate::verif_k_stubs::stub_park)]
#[kani::stub(std::thread::park_timeout, crate::verif_k_stubs::stub_park_timeout)]
#[kani::stub(std::time::Instant::now, stub_instant_now)]
#[kani::unwind(6)]
fn ob_mbox_recv_timeoutn2() { unsafe { FILL = 2; } step_recv_sync(2, true); }
