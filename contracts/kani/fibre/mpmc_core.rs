// @unit crate=fibre file=channels/src/mpmc_v2/core.rs
// @needs fibre/stubs.rs
// @needs fibre/uring.rs
// Step contracts for the bounded MPMC core (`MpmcShared`, everything under one HybridMutex).
//
// View: the ring contents (oldest first).  I-mpmc: ring.wf(), queue_len == ring.len() <= capacity
// (the LOGICAL capacity, which may be smaller than the power-of-two ring), waiter entries point at
// live state bytes, at most one entry per state byte.  Waiter entries may carry any state byte
// (a cancelled future is unlinked later by its Drop); only WAITING ones may be served.
// Sync waiter queues are kept empty (a `Thread` handle cannot be created under Kani; stated).
use super::*;
use crate::verif_k_stubs::*;

pub(crate) const MAXN: usize = 4;
pub(crate) const NW: usize = 2;

pub(crate) fn stub_hm_lock_slow<T>(_m: &crate::sync::HybridMutex<T>) -> crate::sync::MutexGuard<'_, T> {
  kani::assume(false);
  loop {}
}

pub(crate) struct WMem { pub rs: [AtomicU8; NW], pub ss: [AtomicU8; NW] }
impl WMem {
  pub(crate) fn new() -> Self { WMem { rs: [AtomicU8::new(0), AtomicU8::new(0)], ss: [AtomicU8::new(0), AtomicU8::new(0)] } }
}

pub(crate) struct Shape {
  pub n: usize, pub items: [u8; MAXN], pub sc: usize, pub rc: usize,
  pub r_wait: [bool; NW], pub s_wait: [bool; NW],
}

/// Arbitrary state satisfying I-mpmc: `cap` logical capacity, n <= cap buffered items (any u8), head any
/// usize, `nr` async receivers (wakers 0,1) and `ns` async senders (wakers 2,3) linked, each with state byte
/// WAITING or CANCELLED (symbolic), counts any <= 2.
pub(crate) fn any_state(sh: &MpmcShared<u8>, m: &WMem, nr: usize, ns: usize) -> Shape {
  let cap = sh.capacity;
  let n: usize = kani::any();
  kani::assume(n <= cap);
  let items: [u8; MAXN] = kani::any();
  let sc: usize = kani::any();
  let rc: usize = kani::any();
  kani::assume(sc <= 2 && rc <= 2);
  let r_wait: [bool; NW] = kani::any();
  let s_wait: [bool; NW] = kani::any();
  {
    let mut g = sh.internal.lock();
    g.queue.k_set_any_indices(n);
    let mut i = 0;
    while i < MAXN { if i < n { g.queue.k_write(i, items[i]); } i += 1; }
    g.queue_len = n;
    g.sender_count = sc;
    g.receiver_count = rc;
    let mut i = 0;
    while i < NW {
      if i < nr {
        m.rs[i].store(if r_wait[i] { STATE_WAITING } else { STATE_CANCELLED }, Ordering::Relaxed);
        g.waiting_async_receivers.push_back(AsyncWaiter { waker: waker(i), state: &m.rs[i] as *const AtomicU8 });
      }
      if i < ns {
        m.ss[i].store(if s_wait[i] { STATE_WAITING } else { STATE_CANCELLED }, Ordering::Relaxed);
        g.waiting_async_senders.push_back(AsyncWaiter { waker: waker(2 + i), state: &m.ss[i] as *const AtomicU8 });
      }
      i += 1;
    }
  }
  Shape { n, items, sc, rc, r_wait, s_wait }
}

impl MpmcShared<u8> {
  pub(crate) fn k_wf(&self) -> bool {
    let g = self.internal.lock();
    g.queue.wf() && g.queue_len == g.queue.len() && g.queue_len <= self.capacity && self.capacity <= g.queue.capacity()
      && g.waiting_sync_senders.len() == 0 && g.waiting_sync_receivers.len() == 0
  }
  pub(crate) fn k_view(&self) -> ([u8; MAXN], usize) {
    let g = self.internal.lock();
    let n = g.queue.len();
    let mut out = [0u8; MAXN];
    let mut i = 0;
    while i < MAXN { if i < n { out[i] = g.queue.view_at(i); } i += 1; }
    (out, n)
  }
  pub(crate) fn k_counts(&self) -> (usize, usize) { let g = self.internal.lock(); (g.sender_count, g.receiver_count) }
  pub(crate) fn k_nr(&self) -> usize { self.internal.lock().waiting_async_receivers.len() }
  pub(crate) fn k_ns(&self) -> usize { self.internal.lock().waiting_async_senders.len() }
  pub(crate) fn k_r_ptr(&self, i: usize) -> *const AtomicU8 { self.internal.lock().waiting_async_receivers[i].state }
  pub(crate) fn k_s_ptr(&self, i: usize) -> *const AtomicU8 { self.internal.lock().waiting_async_senders[i].state }
}

pub(crate) fn ld(a: &AtomicU8) -> u8 { a.load(Ordering::Relaxed) }

fn same_prefix(a: &[u8; MAXN], b: &[u8; MAXN], n: usize) -> bool {
  let mut ok = true;
  let mut i = 0;
  while i < MAXN { if i < n && a[i] != b[i] { ok = false; } i += 1; }
  ok
}

/// index of the first waiter (< cnt) whose flag says WAITING, or NW if none
fn first_waiting(w: &[bool; NW], cnt: usize) -> usize {
  if cnt > 0 && w[0] { 0 } else if cnt > 1 && w[1] { 1 } else { NW }
}

fn step_new(cap: usize) {
  let sh = MpmcShared::<u8>::new(cap);
  assert!(sh.k_wf());
  assert!(sh.capacity == cap);
  assert!(sh.k_view().1 == 0 && sh.k_counts() == (1, 1) && sh.k_nr() == 0 && sh.k_ns() == 0);
  kani::cover!(true, "END");
}

/// try_send_core: Closed(x) iff no receiver handle; else Ok iff fewer than `capacity` buffered, then
/// view' = view ++ [x] and the FIRST receiver waiter that is WAITING is unlinked, marked and woken once;
/// else Full(x) with nothing touched.
fn step_try_send(cap: usize, nr: usize) {
  let sh = MpmcShared::<u8>::new(cap);
  let m = WMem::new();
  let s = any_state(&sh, &m, nr, 0);
  assert!(sh.k_wf());
  let x: u8 = kani::any();
  let res = sh.try_send_core(x);
  assert!(sh.k_wf());
  assert!(sh.k_counts() == (s.sc, s.rc));
  let (v, n2) = sh.k_view();
  assert!(same_prefix(&s.items, &v, s.n));
  let fw = first_waiting(&s.r_wait, nr);
  match res {
    Ok(()) => {
      assert!(s.rc > 0 && s.n < cap);
      assert!(n2 == s.n + 1 && v[s.n] == x);
      if fw < NW {
        assert!(ld(&m.rs[fw]) == STATE_SUCCESS_SPACE && wakes(fw) == 1);
        assert!(sh.k_nr() == nr - 1);
        let c_skip = fw == 1; kani::cover!(c_skip); // a cancelled entry in front is skipped, not served
      } else {
        assert!(sh.k_nr() == nr);
      }
      let mut i = 0;
      while i < NW { if i < nr && i != fw { assert!(ld(&m.rs[i]) == if s.r_wait[i] { STATE_WAITING } else { STATE_CANCELLED }); assert!(wakes(i) == 0); } i += 1; }
      let c_last = s.n + 1 == cap; kani::cover!(c_last);
    }
    Err(TrySendError::Closed(y)) => {
      assert!(y == x && s.rc == 0);
      assert!(n2 == s.n && sh.k_nr() == nr);
      kani::cover!(true);
    }
    Err(TrySendError::Full(y)) => {
      // exactly when the LOGICAL capacity is reached; nobody is woken, nothing is stored
      assert!(y == x && s.rc > 0 && s.n == cap);
      assert!(n2 == s.n && sh.k_nr() == nr);
      let mut i = 0;
      while i < NW { if i < nr { assert!(ld(&m.rs[i]) == if s.r_wait[i] { STATE_WAITING } else { STATE_CANCELLED }); assert!(wakes(i) == 0); } i += 1; }
      kani::cover!(true);
    }
    Err(TrySendError::Sent(_)) => assert!(false),
  }
  kani::cover!(true, "END");
}

/// try_recv_core: Ok(view[0]) iff non-empty, view' = view[1..], first WAITING sender waiter served;
/// else Disconnected iff no sender handle, else Empty; a failed receive consumes nothing.
fn step_try_recv(cap: usize, ns: usize) {
  let sh = MpmcShared::<u8>::new(cap);
  let m = WMem::new();
  let s = any_state(&sh, &m, 0, ns);
  let res = sh.try_recv_core();
  assert!(sh.k_wf());
  assert!(sh.k_counts() == (s.sc, s.rc));
  let (v, n2) = sh.k_view();
  let fw = first_waiting(&s.s_wait, ns);
  match res {
    Ok(y) => {
      assert!(s.n > 0 && y == s.items[0]);
      assert!(n2 == s.n - 1);
      let mut i = 0;
      while i + 1 < MAXN { if i < n2 { assert!(v[i] == s.items[i + 1]); } i += 1; }
      if fw < NW {
        assert!(ld(&m.ss[fw]) == STATE_SUCCESS_SPACE && wakes(2 + fw) == 1);
        assert!(sh.k_ns() == ns - 1);
        let c_skip = fw == 1; kani::cover!(c_skip);
      } else {
        assert!(sh.k_ns() == ns);
      }
      let mut i = 0;
      while i < NW { if i < ns && i != fw { assert!(ld(&m.ss[i]) == if s.s_wait[i] { STATE_WAITING } else { STATE_CANCELLED }); assert!(wakes(2 + i) == 0); } i += 1; }
      let c_drain = s.sc == 0; kani::cover!(c_drain); // buffered values survive the last sender
      let c_full = s.n == cap; kani::cover!(c_full);
    }
    Err(e) => {
      assert!(s.n == 0 && n2 == 0);
      match e { TryRecvError::Disconnected => assert!(s.sc == 0), TryRecvError::Empty => assert!(s.sc > 0) }
      assert!(sh.k_ns() == ns);
      let mut i = 0;
      while i < NW { if i < ns { assert!(wakes(2 + i) == 0); } i += 1; }
      kani::cover!(true);
    }
  }
  kani::cover!(true, "END");
}

/// try_send_batch_core(iter, limit) with |iter| >= limit: sent = min(limit, capacity - len) unless closed;
/// view' = view ++ xs[..sent]; the iterator is advanced by exactly `sent`; reason None iff sent == limit.
fn step_try_send_batch(cap: usize, nr: usize) {
  let sh = MpmcShared::<u8>::new(cap);
  let m = WMem::new();
  let s = any_state(&sh, &m, nr, 0);
  let xs: [u8; 3] = kani::any();
  let limit: usize = kani::any();
  kani::assume(limit <= 3);
  let mut it = xs.iter().copied();
  let (sent, reason) = sh.try_send_batch_core(&mut it, limit);
  assert!(sh.k_wf());
  assert!(sh.k_counts() == (s.sc, s.rc));
  let (v, n2) = sh.k_view();
  assert!(same_prefix(&s.items, &v, s.n));
  if limit == 0 {
    assert!(sent == 0 && reason.is_none() && n2 == s.n);
  } else if s.rc == 0 {
    assert!(sent == 0 && n2 == s.n);
    assert!(matches!(reason, Some(BatchSendErrorReason::Closed)));
    kani::cover!(true);
  } else {
    let free = cap - s.n;
    let k = if limit < free { limit } else { free };
    assert!(sent == k);
    assert!(n2 == s.n + k);
    let mut i = 0;
    while i < 3 { if i < k { assert!(v[s.n + i] == xs[i]); } i += 1; }
    if k == limit { assert!(reason.is_none()); } else { assert!(matches!(reason, Some(BatchSendErrorReason::Full))); }
    // every WAITING receiver among the first `k` served ones is woken exactly once, nobody twice
    let mut i = 0;
    while i < NW { if i < nr { assert!(wakes(i) <= 1); if !s.r_wait[i] { assert!(wakes(i) == 0); } } i += 1; }
    if k > 0 && nr > 0 && s.r_wait[0] { assert!(wakes(0) == 1 && ld(&m.rs[0]) == STATE_SUCCESS_SPACE); kani::cover!(true); }
    let c_partial = k > 0 && k < limit; kani::cover!(c_partial);
    let c_none = k == 0; kani::cover!(c_none);
  }
  // the unsent tail is still in the iterator, in order
  let mut j = 0;
  while j < 3 { if j >= sent { assert!(it.next() == Some(xs[j])); } j += 1; }
  assert!(it.next().is_none());
  kani::cover!(true, "END");
}

/// try_recv_batch_core(out, max): appends the first k = min(max, len) items in order; 0 => Empty/Disconnected.
fn step_try_recv_batch(cap: usize, ns: usize, max0: usize) {
  let sh = MpmcShared::<u8>::new(cap);
  let m = WMem::new();
  let s = any_state(&sh, &m, 0, ns);
  let max: usize = if max0 == usize::MAX { kani::any() } else { max0 };
  kani::assume(max <= 4);
  let mut out: Vec<u8> = Vec::new();
  out.push(99);
  let res = sh.try_recv_batch_core(&mut out, max);
  assert!(sh.k_wf());
  assert!(sh.k_counts() == (s.sc, s.rc));
  let (v, n2) = sh.k_view();
  let k = if max < s.n { max } else { s.n };
  assert!(out[0] == 99 && out.len() == 1 + k);
  assert!(n2 == s.n - k);
  let mut i = 0;
  while i < MAXN {
    if i < k { assert!(out[1 + i] == s.items[i]); }
    if i < n2 { assert!(v[i] == s.items[i + k]); }
    i += 1;
  }
  match res {
    Ok(g) => { assert!(g == k && (k > 0 || max == 0)); }
    Err(TryRecvError::Empty) => assert!(k == 0 && max > 0 && s.sc > 0),
    Err(TryRecvError::Disconnected) => assert!(k == 0 && max > 0 && s.sc == 0),
  }
  let mut i = 0;
  while i < NW { if i < ns { assert!(wakes(2 + i) <= 1); if !s.s_wait[i] || k == 0 { assert!(wakes(2 + i) == 0); } } i += 1; }
  if k > 0 && ns > 0 && s.s_wait[0] { assert!(wakes(2) == 1 && ld(&m.ss[0]) == STATE_SUCCESS_SPACE); }
  let c_part = k > 0 && k < s.n; kani::cover!(c_part);
  kani::cover!(true, "END");
}

/// poll_recv_internal: Ready(Ok(view[0])) / Ready(Disconnected) / Pending; Pending => exactly one entry for
/// my state byte, state WAITING, holding MY waker (a re-poll with another waker replaces it).
fn step_poll_recv(cap: usize, nr: usize, already: bool) {
  let sh = MpmcShared::<u8>::new(cap);
  let m = WMem::new();
  let s = any_state(&sh, &m, nr, 0);
  let my = AtomicU8::new(kani::any());
  // `already`: I am entry 0 of the queue (re-poll); otherwise a fresh future
  let my_ptr: *const AtomicU8 = if already { &m.rs[0] as *const AtomicU8 } else { &my as *const AtomicU8 };
  if already { kani::assume(s.r_wait[0]); }
  let w = waker(3);
  let mut cx = Context::from_waker(&w);
  let res = sh.poll_recv_internal(&mut cx, my_ptr);
  assert!(sh.k_wf());
  assert!(sh.k_counts() == (s.sc, s.rc));
  let (v, n2) = sh.k_view();
  match res {
    Poll::Ready(Ok(y)) => {
      assert!(s.n > 0 && y == s.items[0] && n2 == s.n - 1);
      assert!(sh.k_nr() == nr);
      kani::cover!(true);
    }
    Poll::Ready(Err(RecvError::Disconnected)) => {
      assert!(s.n == 0 && s.sc == 0 && n2 == 0);
      assert!(sh.k_nr() == nr);
      kani::cover!(true);
    }
    Poll::Pending => {
      assert!(s.n == 0 && s.sc > 0 && n2 == 0);
      assert!(unsafe { (*my_ptr).load(Ordering::Relaxed) } == STATE_WAITING);
      if already {
        assert!(sh.k_nr() == nr && sh.k_r_ptr(0) == my_ptr);
      } else {
        assert!(sh.k_nr() == nr + 1 && sh.k_r_ptr(nr) == my_ptr);
      }
      assert!(wakes(3) == 0 && waker_refs(3) == 1); // exactly one clone of MY waker is held by the queue
      kani::cover!(true);
      let _ = v;
    }
  }
  kani::cover!(true, "END");
}

/// poll_recv_batch_internal: the batch twin of poll_recv.  Ready(Ok(k)) takes the oldest k = min(max, n) values in
/// order; Pending <=> empty with a sender alive, and then exactly one WAITING record for this future holds the
/// LATEST waker (a re-poll replaces the stored waker, it never adds a second record nor keeps a stale one).
fn step_poll_recv_batch(cap: usize, nr: usize, already: bool) {
  let sh = MpmcShared::<u8>::new(cap);
  let m = WMem::new();
  let s = any_state(&sh, &m, nr, 0);
  let my = AtomicU8::new(kani::any());
  let my_ptr: *const AtomicU8 = if already { &m.rs[0] as *const AtomicU8 } else { &my as *const AtomicU8 };
  if already { kani::assume(s.r_wait[0]); }
  let w = waker(3);
  let mut cx = Context::from_waker(&w);
  let max: usize = kani::any();
  kani::assume(max >= 1 && max <= 2);
  let mut out: Vec<u8> = Vec::new();
  let res = sh.poll_recv_batch_internal(&mut cx, my_ptr, &mut out, max);
  assert!(sh.k_wf());
  assert!(sh.k_counts() == (s.sc, s.rc));
  let (_v, n2) = sh.k_view();
  match res {
    Poll::Ready(Ok(k)) => {
      let want = if s.n < max { s.n } else { max };
      assert!(s.n > 0 && k == want && out.len() == k && n2 == s.n - k);
      assert!(out[0] == s.items[0]);
      if k == 2 { assert!(out[1] == s.items[1]); }
      assert!(sh.k_nr() == nr);
      kani::cover!(true);
    }
    Poll::Ready(Err(RecvError::Disconnected)) => {
      assert!(s.n == 0 && s.sc == 0 && n2 == 0 && out.is_empty());
      assert!(sh.k_nr() == nr);
      kani::cover!(true);
    }
    Poll::Pending => {
      assert!(s.n == 0 && s.sc > 0 && n2 == 0 && out.is_empty());
      assert!(unsafe { (*my_ptr).load(Ordering::Relaxed) } == STATE_WAITING);
      if already {
        assert!(sh.k_nr() == nr && sh.k_r_ptr(0) == my_ptr);
      } else {
        assert!(sh.k_nr() == nr + 1 && sh.k_r_ptr(nr) == my_ptr);
      }
      assert!(wakes(3) == 0 && waker_refs(3) == 1); // exactly one clone of MY (latest) waker is held by the queue
      kani::cover!(true);
    }
  }
  kani::cover!(true, "END");
}

/// Reduced twin of step_poll_recv_batch for the registration path only (the full step exceeds 24 GB): EMPTY buffer,
/// a sender alive, max = 1.  Pending, and exactly one WAITING record for this future holds the LATEST waker: a re-poll
/// of an already queued future replaces the stored waker (it neither adds a second record nor keeps the stale one).
fn step_poll_recv_batch_pending(cap: usize, nr: usize, already: bool) {
  let sh = MpmcShared::<u8>::new(cap);
  let m = WMem::new();
  let s = any_state(&sh, &m, nr, 0);
  kani::assume(s.n == 0 && s.sc > 0);
  let my = AtomicU8::new(kani::any());
  let my_ptr: *const AtomicU8 = if already { &m.rs[0] as *const AtomicU8 } else { &my as *const AtomicU8 };
  if already { kani::assume(s.r_wait[0]); }
  let w = waker(3);
  let mut cx = Context::from_waker(&w);
  let mut out: Vec<u8> = Vec::new();
  let res = sh.poll_recv_batch_internal(&mut cx, my_ptr, &mut out, 1);
  assert!(sh.k_wf() && sh.k_counts() == (s.sc, s.rc));
  assert!(matches!(res, Poll::Pending) && out.is_empty());
  assert!(unsafe { (*my_ptr).load(Ordering::Relaxed) } == STATE_WAITING);
  if already { assert!(sh.k_nr() == nr && sh.k_r_ptr(0) == my_ptr); } else { assert!(sh.k_nr() == nr + 1 && sh.k_r_ptr(nr) == my_ptr); }
  assert!(wakes(3) == 0 && waker_refs(3) == 1);
  kani::cover!(true, "END");
}

/// forward_recv_wake / forward_send_wake (called by the Drop of a future that was woken but never polled again):
/// if the operation the wake was about is still possible (buffer non-empty / not full) the FIRST waiter of that side
/// that is still WAITING is unlinked, marked SUCCESS and woken exactly once; otherwise nothing changes.  The buffer and
/// the side counts are never touched.
fn step_forward(cap: usize, recv_side: bool) {
  let sh = MpmcShared::<u8>::new(cap);
  let m = WMem::new();
  let (nr, ns) = if recv_side { (2, 0) } else { (0, 2) };
  let s = any_state(&sh, &m, nr, ns);
  if recv_side { sh.forward_recv_wake(); } else { sh.forward_send_wake(); }
  assert!(sh.k_wf() && sh.k_counts() == (s.sc, s.rc));
  let (v, n2) = sh.k_view();
  assert!(n2 == s.n && same_prefix(&s.items, &v, s.n));
  let possible = if recv_side { s.n > 0 } else { s.n < cap };
  let flags = if recv_side { &s.r_wait } else { &s.s_wait };
  let fw = if possible { first_waiting(flags, 2) } else { NW };
  let mut i = 0;
  while i < NW {
    let st = if recv_side { ld(&m.rs[i]) } else { ld(&m.ss[i]) };
    let wk = if recv_side { wakes(i) } else { wakes(2 + i) };
    if i == fw { assert!(st == STATE_SUCCESS_SPACE && wk == 1); }
    else { assert!(st == if flags[i] { STATE_WAITING } else { STATE_CANCELLED } && wk == 0); }
    i += 1;
  }
  let left = if recv_side { sh.k_nr() } else { sh.k_ns() };
  assert!(left == if fw < NW { 1 } else { 2 });
  let c_fw = fw == 1; kani::cover!(c_fw);
  kani::cover!(true, "END");
}

/// Teardown: every buffered value is dropped exactly once when the shared core is dropped.
fn step_drop_once(cap: usize) {
  let sh = MpmcShared::<D>::new(cap);
  let n: usize = kani::any();
  kani::assume(n <= cap);
  {
    let mut g = sh.internal.lock();
    g.queue.k_set_any_indices(n);
    let mut i = 0;
    while i < MAXN { if i < n { g.queue.k_write(i, D(i as u8)); } i += 1; }
    g.queue_len = n;
  }
  let op: u8 = kani::any();
  kani::assume(op < 3);
  let mut created = n;
  match op {
    0 => { let r = sh.try_send_core(D(created as u8)); created += 1; if let Err(e) = r { assert!(n == cap); drop(e); assert!(drops(created - 1) == 1); kani::cover!(true); } }
    1 => { if let Ok(d) = sh.try_recv_core() { assert!(d.0 == 0 && drops(0) == 0); drop(d); assert!(drops(0) == 1); kani::cover!(true); } }
    _ => {}
  }
  drop(sh);
  let mut i = 0;
  while i < MAXN + 1 { if i < created { assert!(drops(i) == 1); } else { assert!(drops(i) == 0); } i += 1; }
  let c_full = n == cap; kani::cover!(c_full);
  kani::cover!(true, "END");
}

// @obligation id=mpmc.core.new.cap1 props=C01,C03 kind=step tier=quick bound="capacity 1; head any usize; buffered values any u8; counts any <=2; no sync waiters; "
#[kani::proof]
#[kani::stub(std::thread::current::current, crate::verif_k_stubs::stub_thread_current)]
#[kani::stub(parking_lot::RawMutex::lock_slow, crate::verif_k_stubs::stub_lock_slow)]
#[kani::stub(parking_lot::RawMutex::unlock_slow, crate::verif_k_stubs::stub_unlock_slow)]
#[kani::stub(crate::sync::mutex::HybridMutex::lock_slow, stub_hm_lock_slow)]
#[kani::unwind(6)]
fn ob_mpmc_core_new_cap1() { step_new(1); }

// @obligation id=mpmc.core.new.cap3 props=C01,C03 kind=step tier=quick bound="capacity 3; head any usize; buffered values any u8; counts any <=2; no sync waiters; "
#[kani::proof]
#[kani::stub(std::thread::current::current, crate::verif_k_stubs::stub_thread_current)]
#[kani::stub(parking_lot::RawMutex::lock_slow, crate::verif_k_stubs::stub_lock_slow)]
#[kani::stub(parking_lot::RawMutex::unlock_slow, crate::verif_k_stubs::stub_unlock_slow)]
#[kani::stub(crate::sync::mutex::HybridMutex::lock_slow, stub_hm_lock_slow)]
#[kani::unwind(6)]
fn ob_mpmc_core_new_cap3() { step_new(3); }

// @obligation id=mpmc.core.new.cap4 props=C01,C03 kind=step tier=quick bound="capacity 4; head any usize; buffered values any u8; counts any <=2; no sync waiters; "
#[kani::proof]
#[kani::stub(std::thread::current::current, crate::verif_k_stubs::stub_thread_current)]
#[kani::stub(parking_lot::RawMutex::lock_slow, crate::verif_k_stubs::stub_lock_slow)]
#[kani::stub(parking_lot::RawMutex::unlock_slow, crate::verif_k_stubs::stub_unlock_slow)]
#[kani::stub(crate::sync::mutex::HybridMutex::lock_slow, stub_hm_lock_slow)]
#[kani::unwind(6)]
fn ob_mpmc_core_new_cap4() { step_new(4); }

// @obligation id=mpmc.core.try_send.cap1r0 props=C01,C02,C03,C06 kind=step tier=quick bound="logical capacity 1, 0 async receiver waiters (state WAITING or CANCELLED); head any usize; buffered values any u8; counts any <=2; no sync waiters; one try_send_core"
#[kani::proof]
#[kani::stub(std::thread::current::current, crate::verif_k_stubs::stub_thread_current)]
#[kani::stub(parking_lot::RawMutex::lock_slow, crate::verif_k_stubs::stub_lock_slow)]
#[kani::stub(parking_lot::RawMutex::unlock_slow, crate::verif_k_stubs::stub_unlock_slow)]
#[kani::stub(crate::sync::mutex::HybridMutex::lock_slow, stub_hm_lock_slow)]
#[kani::unwind(6)]
fn ob_mpmc_core_try_send_cap1r0() { step_try_send(1, 0); }

// @obligation id=mpmc.core.try_send.cap1r2 props=C01,C02,C03,C06 kind=step tier=quick bound="logical capacity 1, 2 async receiver waiters (state WAITING or CANCELLED); head any usize; buffered values any u8; counts any <=2; no sync waiters; one try_send_core"
#[kani::proof]
#[kani::stub(std::thread::current::current, crate::verif_k_stubs::stub_thread_current)]
#[kani::stub(parking_lot::RawMutex::lock_slow, crate::verif_k_stubs::stub_lock_slow)]
#[kani::stub(parking_lot::RawMutex::unlock_slow, crate::verif_k_stubs::stub_unlock_slow)]
#[kani::stub(crate::sync::mutex::HybridMutex::lock_slow, stub_hm_lock_slow)]
#[kani::unwind(6)]
fn ob_mpmc_core_try_send_cap1r2() { step_try_send(1, 2); }

// @obligation id=mpmc.core.try_send.cap3r0 props=C01,C02,C03,C06 kind=step tier=quick bound="logical capacity 3, 0 async receiver waiters (state WAITING or CANCELLED); head any usize; buffered values any u8; counts any <=2; no sync waiters; one try_send_core"
#[kani::proof]
#[kani::stub(std::thread::current::current, crate::verif_k_stubs::stub_thread_current)]
#[kani::stub(parking_lot::RawMutex::lock_slow, crate::verif_k_stubs::stub_lock_slow)]
#[kani::stub(parking_lot::RawMutex::unlock_slow, crate::verif_k_stubs::stub_unlock_slow)]
#[kani::stub(crate::sync::mutex::HybridMutex::lock_slow, stub_hm_lock_slow)]
#[kani::unwind(6)]
fn ob_mpmc_core_try_send_cap3r0() { step_try_send(3, 0); }

// @obligation id=mpmc.core.try_send.cap3r2 props=C01,C02,C03,C06 kind=step tier=quick bound="logical capacity 3, 2 async receiver waiters (state WAITING or CANCELLED); head any usize; buffered values any u8; counts any <=2; no sync waiters; one try_send_core"
#[kani::proof]
#[kani::stub(std::thread::current::current, crate::verif_k_stubs::stub_thread_current)]
#[kani::stub(parking_lot::RawMutex::lock_slow, crate::verif_k_stubs::stub_lock_slow)]
#[kani::stub(parking_lot::RawMutex::unlock_slow, crate::verif_k_stubs::stub_unlock_slow)]
#[kani::stub(crate::sync::mutex::HybridMutex::lock_slow, stub_hm_lock_slow)]
#[kani::unwind(6)]
fn ob_mpmc_core_try_send_cap3r2() { step_try_send(3, 2); }

// @obligation id=mpmc.core.try_recv.cap1s0 props=C01,C02,C04,C06 kind=step tier=quick bound="logical capacity 1, 0 async sender waiters (state WAITING or CANCELLED); head any usize; buffered values any u8; counts any <=2; no sync waiters; one try_recv_core"
#[kani::proof]
#[kani::stub(std::thread::current::current, crate::verif_k_stubs::stub_thread_current)]
#[kani::stub(parking_lot::RawMutex::lock_slow, crate::verif_k_stubs::stub_lock_slow)]
#[kani::stub(parking_lot::RawMutex::unlock_slow, crate::verif_k_stubs::stub_unlock_slow)]
#[kani::stub(crate::sync::mutex::HybridMutex::lock_slow, stub_hm_lock_slow)]
#[kani::unwind(6)]
fn ob_mpmc_core_try_recv_cap1s0() { step_try_recv(1, 0); }

// @obligation id=mpmc.core.try_recv.cap1s2 props=C01,C02,C04,C06 kind=step tier=quick bound="logical capacity 1, 2 async sender waiters (state WAITING or CANCELLED); head any usize; buffered values any u8; counts any <=2; no sync waiters; one try_recv_core"
#[kani::proof]
#[kani::stub(std::thread::current::current, crate::verif_k_stubs::stub_thread_current)]
#[kani::stub(parking_lot::RawMutex::lock_slow, crate::verif_k_stubs::stub_lock_slow)]
#[kani::stub(parking_lot::RawMutex::unlock_slow, crate::verif_k_stubs::stub_unlock_slow)]
#[kani::stub(crate::sync::mutex::HybridMutex::lock_slow, stub_hm_lock_slow)]
#[kani::unwind(6)]
fn ob_mpmc_core_try_recv_cap1s2() { step_try_recv(1, 2); }

// @obligation id=mpmc.core.try_recv.cap3s0 props=C01,C02,C04,C06 kind=step tier=quick bound="logical capacity 3, 0 async sender waiters (state WAITING or CANCELLED); head any usize; buffered values any u8; counts any <=2; no sync waiters; one try_recv_core"
#[kani::proof]
#[kani::stub(std::thread::current::current, crate::verif_k_stubs::stub_thread_current)]
#[kani::stub(parking_lot::RawMutex::lock_slow, crate::verif_k_stubs::stub_lock_slow)]
#[kani::stub(parking_lot::RawMutex::unlock_slow, crate::verif_k_stubs::stub_unlock_slow)]
#[kani::stub(crate::sync::mutex::HybridMutex::lock_slow, stub_hm_lock_slow)]
#[kani::unwind(6)]
fn ob_mpmc_core_try_recv_cap3s0() { step_try_recv(3, 0); }

// @obligation id=mpmc.core.try_recv.cap3s2 props=C01,C02,C04,C06 kind=step tier=quick bound="logical capacity 3, 2 async sender waiters (state WAITING or CANCELLED); head any usize; buffered values any u8; counts any <=2; no sync waiters; one try_recv_core"
#[kani::proof]
#[kani::stub(std::thread::current::current, crate::verif_k_stubs::stub_thread_current)]
#[kani::stub(parking_lot::RawMutex::lock_slow, crate::verif_k_stubs::stub_lock_slow)]
#[kani::stub(parking_lot::RawMutex::unlock_slow, crate::verif_k_stubs::stub_unlock_slow)]
#[kani::stub(crate::sync::mutex::HybridMutex::lock_slow, stub_hm_lock_slow)]
#[kani::unwind(6)]
fn ob_mpmc_core_try_recv_cap3s2() { step_try_recv(3, 2); }

// @obligation id=mpmc.core.try_send_batch.cap1r0 props=C01,C02,C03,C06 kind=step tier=quick bound="logical capacity 1, 0 async receiver waiters; head any usize; buffered values any u8; counts any <=2; no sync waiters; batch of 3 with limit any <=3"
#[kani::proof]
#[kani::stub(std::thread::current::current, crate::verif_k_stubs::stub_thread_current)]
#[kani::stub(parking_lot::RawMutex::lock_slow, crate::verif_k_stubs::stub_lock_slow)]
#[kani::stub(parking_lot::RawMutex::unlock_slow, crate::verif_k_stubs::stub_unlock_slow)]
#[kani::stub(crate::sync::mutex::HybridMutex::lock_slow, stub_hm_lock_slow)]
#[kani::unwind(8)]
fn ob_mpmc_core_try_send_batch_cap1r0() { step_try_send_batch(1, 0); }

// @obligation id=mpmc.core.try_send_batch.cap1r1 props=C01,C02,C03,C06 kind=step tier=quick bound="logical capacity 1, 1 async receiver waiters; head any usize; buffered values any u8; counts any <=2; no sync waiters; batch of 3 with limit any <=3"
#[kani::proof]
#[kani::stub(std::thread::current::current, crate::verif_k_stubs::stub_thread_current)]
#[kani::stub(parking_lot::RawMutex::lock_slow, crate::verif_k_stubs::stub_lock_slow)]
#[kani::stub(parking_lot::RawMutex::unlock_slow, crate::verif_k_stubs::stub_unlock_slow)]
#[kani::stub(crate::sync::mutex::HybridMutex::lock_slow, stub_hm_lock_slow)]
#[kani::unwind(8)]
fn ob_mpmc_core_try_send_batch_cap1r1() { step_try_send_batch(1, 1); }

// @obligation id=mpmc.core.try_send_batch.cap3r0 props=C01,C02,C03,C06 kind=step tier=quick bound="logical capacity 3, 0 async receiver waiters; head any usize; buffered values any u8; counts any <=2; no sync waiters; batch of 3 with limit any <=3"
#[kani::proof]
#[kani::stub(std::thread::current::current, crate::verif_k_stubs::stub_thread_current)]
#[kani::stub(parking_lot::RawMutex::lock_slow, crate::verif_k_stubs::stub_lock_slow)]
#[kani::stub(parking_lot::RawMutex::unlock_slow, crate::verif_k_stubs::stub_unlock_slow)]
#[kani::stub(crate::sync::mutex::HybridMutex::lock_slow, stub_hm_lock_slow)]
#[kani::unwind(8)]
fn ob_mpmc_core_try_send_batch_cap3r0() { step_try_send_batch(3, 0); }

// @obligation id=mpmc.core.try_send_batch.cap3r1 props=C01,C02,C03,C06 kind=step tier=quick bound="logical capacity 3, 1 async receiver waiters; head any usize; buffered values any u8; counts any <=2; no sync waiters; batch of 3 with limit any <=3"
#[kani::proof]
#[kani::stub(std::thread::current::current, crate::verif_k_stubs::stub_thread_current)]
#[kani::stub(parking_lot::RawMutex::lock_slow, crate::verif_k_stubs::stub_lock_slow)]
#[kani::stub(parking_lot::RawMutex::unlock_slow, crate::verif_k_stubs::stub_unlock_slow)]
#[kani::stub(crate::sync::mutex::HybridMutex::lock_slow, stub_hm_lock_slow)]
#[kani::unwind(8)]
fn ob_mpmc_core_try_send_batch_cap3r1() { step_try_send_batch(3, 1); }

// @obligation id=mpmc.core.poll_recv.cap1r0 props=C01,C06 kind=step tier=quick bound="logical capacity 1, 0 other/own receiver waiters, fresh future; head any usize; buffered values any u8; counts any <=2; no sync waiters; one poll, then the enabling try_send_core"
#[kani::proof]
#[kani::stub(std::thread::current::current, crate::verif_k_stubs::stub_thread_current)]
#[kani::stub(parking_lot::RawMutex::lock_slow, crate::verif_k_stubs::stub_lock_slow)]
#[kani::stub(parking_lot::RawMutex::unlock_slow, crate::verif_k_stubs::stub_unlock_slow)]
#[kani::stub(crate::sync::mutex::HybridMutex::lock_slow, stub_hm_lock_slow)]
#[kani::unwind(6)]
fn ob_mpmc_core_poll_recv_cap1r0() { step_poll_recv(1, 0, false); }

// @obligation id=mpmc.core.poll_recv.cap1r1 props=C01,C06 kind=step tier=quick bound="logical capacity 1, 1 other/own receiver waiters, fresh future; head any usize; buffered values any u8; counts any <=2; no sync waiters; one poll, then the enabling try_send_core"
#[kani::proof]
#[kani::stub(std::thread::current::current, crate::verif_k_stubs::stub_thread_current)]
#[kani::stub(parking_lot::RawMutex::lock_slow, crate::verif_k_stubs::stub_lock_slow)]
#[kani::stub(parking_lot::RawMutex::unlock_slow, crate::verif_k_stubs::stub_unlock_slow)]
#[kani::stub(crate::sync::mutex::HybridMutex::lock_slow, stub_hm_lock_slow)]
#[kani::unwind(6)]
fn ob_mpmc_core_poll_recv_cap1r1() { step_poll_recv(1, 1, false); }

// @obligation id=mpmc.core.poll_recv.cap1r1re props=C01,C06 kind=step tier=quick bound="logical capacity 1, 1 other/own receiver waiters, re-poll of the queued future; head any usize; buffered values any u8; counts any <=2; no sync waiters; one poll, then the enabling try_send_core"
#[kani::proof]
#[kani::stub(std::thread::current::current, crate::verif_k_stubs::stub_thread_current)]
#[kani::stub(parking_lot::RawMutex::lock_slow, crate::verif_k_stubs::stub_lock_slow)]
#[kani::stub(parking_lot::RawMutex::unlock_slow, crate::verif_k_stubs::stub_unlock_slow)]
#[kani::stub(crate::sync::mutex::HybridMutex::lock_slow, stub_hm_lock_slow)]
#[kani::unwind(6)]
fn ob_mpmc_core_poll_recv_cap1r1re() { step_poll_recv(1, 1, true); }

// @obligation id=mpmc.core.poll_recv.cap3r0 props=C01,C06 kind=step tier=quick bound="logical capacity 3, 0 other/own receiver waiters, fresh future; head any usize; buffered values any u8; counts any <=2; no sync waiters; one poll, then the enabling try_send_core"
#[kani::proof]
#[kani::stub(std::thread::current::current, crate::verif_k_stubs::stub_thread_current)]
#[kani::stub(parking_lot::RawMutex::lock_slow, crate::verif_k_stubs::stub_lock_slow)]
#[kani::stub(parking_lot::RawMutex::unlock_slow, crate::verif_k_stubs::stub_unlock_slow)]
#[kani::stub(crate::sync::mutex::HybridMutex::lock_slow, stub_hm_lock_slow)]
#[kani::unwind(6)]
fn ob_mpmc_core_poll_recv_cap3r0() { step_poll_recv(3, 0, false); }

// @obligation id=mpmc.core.poll_recv.cap3r1 props=C01,C06 kind=step tier=quick bound="logical capacity 3, 1 other/own receiver waiters, fresh future; head any usize; buffered values any u8; counts any <=2; no sync waiters; one poll, then the enabling try_send_core"
#[kani::proof]
#[kani::stub(std::thread::current::current, crate::verif_k_stubs::stub_thread_current)]
#[kani::stub(parking_lot::RawMutex::lock_slow, crate::verif_k_stubs::stub_lock_slow)]
#[kani::stub(parking_lot::RawMutex::unlock_slow, crate::verif_k_stubs::stub_unlock_slow)]
#[kani::stub(crate::sync::mutex::HybridMutex::lock_slow, stub_hm_lock_slow)]
#[kani::unwind(6)]
fn ob_mpmc_core_poll_recv_cap3r1() { step_poll_recv(3, 1, false); }

// @obligation id=mpmc.core.poll_recv.cap3r1re props=C01,C06 kind=step tier=quick bound="logical capacity 3, 1 other/own receiver waiters, re-poll of the queued future; head any usize; buffered values any u8; counts any <=2; no sync waiters; one poll, then the enabling try_send_core"
#[kani::proof]
#[kani::stub(std::thread::current::current, crate::verif_k_stubs::stub_thread_current)]
#[kani::stub(parking_lot::RawMutex::lock_slow, crate::verif_k_stubs::stub_lock_slow)]
#[kani::stub(parking_lot::RawMutex::unlock_slow, crate::verif_k_stubs::stub_unlock_slow)]
#[kani::stub(crate::sync::mutex::HybridMutex::lock_slow, stub_hm_lock_slow)]
#[kani::unwind(6)]
fn ob_mpmc_core_poll_recv_cap3r1re() { step_poll_recv(3, 1, true); }

// @obligation id=mpmc.core.drop_once.cap1 props=C09 kind=step tier=quick bound="logical capacity 1; head any usize; buffered values any u8; counts any <=2; no sync waiters; one try_send/try_recv then drop; drop counters"
#[kani::proof]
#[kani::stub(std::thread::current::current, crate::verif_k_stubs::stub_thread_current)]
#[kani::stub(parking_lot::RawMutex::lock_slow, crate::verif_k_stubs::stub_lock_slow)]
#[kani::stub(parking_lot::RawMutex::unlock_slow, crate::verif_k_stubs::stub_unlock_slow)]
#[kani::stub(crate::sync::mutex::HybridMutex::lock_slow, stub_hm_lock_slow)]
#[kani::unwind(6)]
fn ob_mpmc_core_drop_once_cap1() { step_drop_once(1); }

// @obligation id=mpmc.core.drop_once.cap3 props=C09 kind=step tier=quick bound="logical capacity 3; head any usize; buffered values any u8; counts any <=2; no sync waiters; one try_send/try_recv then drop; drop counters"
#[kani::proof]
#[kani::stub(std::thread::current::current, crate::verif_k_stubs::stub_thread_current)]
#[kani::stub(parking_lot::RawMutex::lock_slow, crate::verif_k_stubs::stub_lock_slow)]
#[kani::stub(parking_lot::RawMutex::unlock_slow, crate::verif_k_stubs::stub_unlock_slow)]
#[kani::stub(crate::sync::mutex::HybridMutex::lock_slow, stub_hm_lock_slow)]
#[kani::unwind(6)]
fn ob_mpmc_core_drop_once_cap3() { step_drop_once(3); }

// @obligation id=mpmc.core.try_recv_batch.cap1s0 props=C01,C02,C06 kind=step tier=quick bound="logical capacity 1, no sender waiters; head any usize; buffered values any u8; counts any <=2; max any <=4"
#[kani::proof]
#[kani::stub(std::thread::current::current, crate::verif_k_stubs::stub_thread_current)]
#[kani::stub(parking_lot::RawMutex::lock_slow, crate::verif_k_stubs::stub_lock_slow)]
#[kani::stub(parking_lot::RawMutex::unlock_slow, crate::verif_k_stubs::stub_unlock_slow)]
#[kani::stub(crate::sync::mutex::HybridMutex::lock_slow, stub_hm_lock_slow)]
#[kani::unwind(8)]
fn ob_mpmc_core_try_recv_batch_cap1s0() { step_try_recv_batch(1, 0, usize::MAX); }

// @obligation id=mpmc.core.try_recv_batch.cap1s1m1 props=C01,C02,C06 kind=step tier=probe bound="logical capacity 1, 1 async sender waiter (WAITING or CANCELLED); head any usize; buffered values any u8; counts any <=2; max = 1"
#[kani::proof]
#[kani::stub(std::thread::current::current, crate::verif_k_stubs::stub_thread_current)]
#[kani::stub(parking_lot::RawMutex::lock_slow, crate::verif_k_stubs::stub_lock_slow)]
#[kani::stub(parking_lot::RawMutex::unlock_slow, crate::verif_k_stubs::stub_unlock_slow)]
#[kani::stub(crate::sync::mutex::HybridMutex::lock_slow, stub_hm_lock_slow)]
#[kani::unwind(8)]
fn ob_mpmc_core_try_recv_batch_cap1s1m1() { step_try_recv_batch(1, 1, 1); }

// @obligation id=mpmc.core.try_recv_batch.cap1s1m2 props=C01,C02,C06 kind=step tier=probe bound="logical capacity 1, 1 async sender waiter (WAITING or CANCELLED); head any usize; buffered values any u8; counts any <=2; max = 2"
#[kani::proof]
#[kani::stub(std::thread::current::current, crate::verif_k_stubs::stub_thread_current)]
#[kani::stub(parking_lot::RawMutex::lock_slow, crate::verif_k_stubs::stub_lock_slow)]
#[kani::stub(parking_lot::RawMutex::unlock_slow, crate::verif_k_stubs::stub_unlock_slow)]
#[kani::stub(crate::sync::mutex::HybridMutex::lock_slow, stub_hm_lock_slow)]
#[kani::unwind(8)]
fn ob_mpmc_core_try_recv_batch_cap1s1m2() { step_try_recv_batch(1, 1, 2); }

// @obligation id=mpmc.core.try_recv_batch.cap3s0 props=C01,C02,C06 kind=step tier=quick bound="logical capacity 3, no sender waiters; head any usize; buffered values any u8; counts any <=2; max any <=4"
#[kani::proof]
#[kani::stub(std::thread::current::current, crate::verif_k_stubs::stub_thread_current)]
#[kani::stub(parking_lot::RawMutex::lock_slow, crate::verif_k_stubs::stub_lock_slow)]
#[kani::stub(parking_lot::RawMutex::unlock_slow, crate::verif_k_stubs::stub_unlock_slow)]
#[kani::stub(crate::sync::mutex::HybridMutex::lock_slow, stub_hm_lock_slow)]
#[kani::unwind(8)]
fn ob_mpmc_core_try_recv_batch_cap3s0() { step_try_recv_batch(3, 0, usize::MAX); }

// @obligation id=mpmc.core.try_recv_batch.cap3s1m1 props=C01,C02,C06 kind=step tier=probe bound="logical capacity 3, 1 async sender waiter (WAITING or CANCELLED); head any usize; buffered values any u8; counts any <=2; max = 1"
#[kani::proof]
#[kani::stub(std::thread::current::current, crate::verif_k_stubs::stub_thread_current)]
#[kani::stub(parking_lot::RawMutex::lock_slow, crate::verif_k_stubs::stub_lock_slow)]
#[kani::stub(parking_lot::RawMutex::unlock_slow, crate::verif_k_stubs::stub_unlock_slow)]
#[kani::stub(crate::sync::mutex::HybridMutex::lock_slow, stub_hm_lock_slow)]
#[kani::unwind(8)]
fn ob_mpmc_core_try_recv_batch_cap3s1m1() { step_try_recv_batch(3, 1, 1); }

// @obligation id=mpmc.core.try_recv_batch.cap3s1m2 props=C01,C02,C06 kind=step tier=probe bound="logical capacity 3, 1 async sender waiter (WAITING or CANCELLED); head any usize; buffered values any u8; counts any <=2; max = 2"
#[kani::proof]
#[kani::stub(std::thread::current::current, crate::verif_k_stubs::stub_thread_current)]
#[kani::stub(parking_lot::RawMutex::lock_slow, crate::verif_k_stubs::stub_lock_slow)]
#[kani::stub(parking_lot::RawMutex::unlock_slow, crate::verif_k_stubs::stub_unlock_slow)]
#[kani::stub(crate::sync::mutex::HybridMutex::lock_slow, stub_hm_lock_slow)]
#[kani::unwind(8)]
fn ob_mpmc_core_try_recv_batch_cap3s1m2() { step_try_recv_batch(3, 1, 2); }

// @obligation id=mpmc.core.poll_recv_batch.cap1r0 props=C06,C01,C02 kind=step tier=probe bound="logical capacity 1, 0 async receiver waiter(s) (WAITING or CANCELLED); head any usize; buffered values any u8; counts any <=2; max in 1..=2"
#[kani::proof]
#[kani::stub(std::thread::current::current, crate::verif_k_stubs::stub_thread_current)]
#[kani::stub(parking_lot::RawMutex::lock_slow, crate::verif_k_stubs::stub_lock_slow)]
#[kani::stub(parking_lot::RawMutex::unlock_slow, crate::verif_k_stubs::stub_unlock_slow)]
#[kani::stub(crate::sync::mutex::HybridMutex::lock_slow, stub_hm_lock_slow)]
#[kani::unwind(8)]
fn ob_mpmc_core_poll_recv_batch_cap1r0() { step_poll_recv_batch(1, 0, false); }

// @obligation id=mpmc.core.poll_recv_batch.cap1r1re props=C06,C01,C02 kind=step tier=probe bound="logical capacity 1, 1 async receiver waiter(s) (WAITING or CANCELLED); this future already queued (re-poll with a new waker); head any usize; buffered values any u8; counts any <=2; max in 1..=2"
#[kani::proof]
#[kani::stub(std::thread::current::current, crate::verif_k_stubs::stub_thread_current)]
#[kani::stub(parking_lot::RawMutex::lock_slow, crate::verif_k_stubs::stub_lock_slow)]
#[kani::stub(parking_lot::RawMutex::unlock_slow, crate::verif_k_stubs::stub_unlock_slow)]
#[kani::stub(crate::sync::mutex::HybridMutex::lock_slow, stub_hm_lock_slow)]
#[kani::unwind(8)]
fn ob_mpmc_core_poll_recv_batch_cap1r1re() { step_poll_recv_batch(1, 1, true); }

// @obligation id=mpmc.core.poll_recv_batch.cap3r1 props=C06,C01,C02 kind=step tier=probe bound="logical capacity 3, 1 async receiver waiter(s) (WAITING or CANCELLED); head any usize; buffered values any u8; counts any <=2; max in 1..=2"
#[kani::proof]
#[kani::stub(std::thread::current::current, crate::verif_k_stubs::stub_thread_current)]
#[kani::stub(parking_lot::RawMutex::lock_slow, crate::verif_k_stubs::stub_lock_slow)]
#[kani::stub(parking_lot::RawMutex::unlock_slow, crate::verif_k_stubs::stub_unlock_slow)]
#[kani::stub(crate::sync::mutex::HybridMutex::lock_slow, stub_hm_lock_slow)]
#[kani::unwind(8)]
fn ob_mpmc_core_poll_recv_batch_cap3r1() { step_poll_recv_batch(3, 1, false); }

// @obligation id=mpmc.core.poll_recv_batch.cap3r1re props=C06,C01,C02 kind=step tier=probe bound="logical capacity 3, 1 async receiver waiter(s) (WAITING or CANCELLED); this future already queued (re-poll with a new waker); head any usize; buffered values any u8; counts any <=2; max in 1..=2"
#[kani::proof]
#[kani::stub(std::thread::current::current, crate::verif_k_stubs::stub_thread_current)]
#[kani::stub(parking_lot::RawMutex::lock_slow, crate::verif_k_stubs::stub_lock_slow)]
#[kani::stub(parking_lot::RawMutex::unlock_slow, crate::verif_k_stubs::stub_unlock_slow)]
#[kani::stub(crate::sync::mutex::HybridMutex::lock_slow, stub_hm_lock_slow)]
#[kani::unwind(8)]
fn ob_mpmc_core_poll_recv_batch_cap3r1re() { step_poll_recv_batch(3, 1, true); }

// @obligation id=mpmc.core.poll_recv_batch_pending.cap1r1re props=C06 kind=step tier=thorough bound="logical capacity 1, EMPTY buffer, a sender alive, 1 async receiver waiter(s) (WAITING or CANCELLED); this future already queued (re-poll with a new waker); max = 1"
#[kani::proof]
#[kani::stub(std::thread::current::current, crate::verif_k_stubs::stub_thread_current)]
#[kani::stub(parking_lot::RawMutex::lock_slow, crate::verif_k_stubs::stub_lock_slow)]
#[kani::stub(parking_lot::RawMutex::unlock_slow, crate::verif_k_stubs::stub_unlock_slow)]
#[kani::stub(crate::sync::mutex::HybridMutex::lock_slow, stub_hm_lock_slow)]
#[kani::unwind(8)]
fn ob_mpmc_core_poll_recv_batch_pending_cap1r1re() { step_poll_recv_batch_pending(1, 1, true); }

// @obligation id=mpmc.core.poll_recv_batch_pending.cap1r1 props=C06 kind=step tier=thorough bound="logical capacity 1, EMPTY buffer, a sender alive, 1 async receiver waiter(s) (WAITING or CANCELLED); max = 1"
#[kani::proof]
#[kani::stub(std::thread::current::current, crate::verif_k_stubs::stub_thread_current)]
#[kani::stub(parking_lot::RawMutex::lock_slow, crate::verif_k_stubs::stub_lock_slow)]
#[kani::stub(parking_lot::RawMutex::unlock_slow, crate::verif_k_stubs::stub_unlock_slow)]
#[kani::stub(crate::sync::mutex::HybridMutex::lock_slow, stub_hm_lock_slow)]
#[kani::unwind(8)]
fn ob_mpmc_core_poll_recv_batch_pending_cap1r1() { step_poll_recv_batch_pending(1, 1, false); }

// @obligation id=mpmc.core.forward_recv.cap1 props=C06 kind=step tier=quick bound="logical capacity 1, 2 async receiver waiters (each WAITING or CANCELLED); 0..=capacity buffered values, head any usize; counts any <=2"
#[kani::proof]
#[kani::stub(std::thread::current::current, crate::verif_k_stubs::stub_thread_current)]
#[kani::stub(parking_lot::RawMutex::lock_slow, crate::verif_k_stubs::stub_lock_slow)]
#[kani::stub(parking_lot::RawMutex::unlock_slow, crate::verif_k_stubs::stub_unlock_slow)]
#[kani::stub(crate::sync::mutex::HybridMutex::lock_slow, stub_hm_lock_slow)]
#[kani::unwind(8)]
fn ob_mpmc_core_forward_recv_cap1() { step_forward(1, true); }

// @obligation id=mpmc.core.forward_send.cap1 props=C06 kind=step tier=quick bound="logical capacity 1, 2 async sender waiters (each WAITING or CANCELLED); 0..=capacity buffered values, head any usize; counts any <=2"
#[kani::proof]
#[kani::stub(std::thread::current::current, crate::verif_k_stubs::stub_thread_current)]
#[kani::stub(parking_lot::RawMutex::lock_slow, crate::verif_k_stubs::stub_lock_slow)]
#[kani::stub(parking_lot::RawMutex::unlock_slow, crate::verif_k_stubs::stub_unlock_slow)]
#[kani::stub(crate::sync::mutex::HybridMutex::lock_slow, stub_hm_lock_slow)]
#[kani::unwind(8)]
fn ob_mpmc_core_forward_send_cap1() { step_forward(1, false); }

// @obligation id=mpmc.core.forward_recv.cap3 props=C06 kind=step tier=quick bound="logical capacity 3, 2 async receiver waiters (each WAITING or CANCELLED); 0..=capacity buffered values, head any usize; counts any <=2"
#[kani::proof]
#[kani::stub(std::thread::current::current, crate::verif_k_stubs::stub_thread_current)]
#[kani::stub(parking_lot::RawMutex::lock_slow, crate::verif_k_stubs::stub_lock_slow)]
#[kani::stub(parking_lot::RawMutex::unlock_slow, crate::verif_k_stubs::stub_unlock_slow)]
#[kani::stub(crate::sync::mutex::HybridMutex::lock_slow, stub_hm_lock_slow)]
#[kani::unwind(8)]
fn ob_mpmc_core_forward_recv_cap3() { step_forward(3, true); }

// @obligation id=mpmc.core.forward_send.cap3 props=C06 kind=step tier=quick bound="logical capacity 3, 2 async sender waiters (each WAITING or CANCELLED); 0..=capacity buffered values, head any usize; counts any <=2"
#[kani::proof]
#[kani::stub(std::thread::current::current, crate::verif_k_stubs::stub_thread_current)]
#[kani::stub(parking_lot::RawMutex::lock_slow, crate::verif_k_stubs::stub_lock_slow)]
#[kani::stub(parking_lot::RawMutex::unlock_slow, crate::verif_k_stubs::stub_unlock_slow)]
#[kani::stub(crate::sync::mutex::HybridMutex::lock_slow, stub_hm_lock_slow)]
#[kani::unwind(8)]
fn ob_mpmc_core_forward_send_cap3() { step_forward(3, false); }
