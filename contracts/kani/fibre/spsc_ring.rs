// @unit crate=fibre file=channels/src/spsc/shared.rs
// @needs fibre/stubs.rs
// Contracts for the SPSC ring (`Ring`) and the batch cores of `SpscShared`.
//
// View: slots head..tail through the mask (oldest first).
// wf(): buf.len == mask+1 is a power of two >= 2; 1 <= cap <= buf.len;
//       tail - head <= cap; the producer's cached_head lies between an old head and head
//       (tail - cached_head <= cap, head - cached_head <= tail - cached_head): a stale value only
//       under-reports free space; the consumer's cached_tail lies between head and tail.
// All index arithmetic is wrapping: head ranges over all of usize.
use super::*;
use crate::verif_k_stubs::*;

pub(crate) const MAXN: usize = 4;

impl<T> Ring<T> {
  pub(crate) fn k_head(&self) -> usize { self.c.head.load(Ordering::Relaxed) }
  pub(crate) fn k_tail(&self) -> usize { self.p.tail.load(Ordering::Relaxed) }
  pub(crate) fn k_cached_head(&self) -> usize { unsafe { *self.p.cached_head.get() } }
  pub(crate) fn k_cached_tail(&self) -> usize { unsafe { *self.c.cached_tail.get() } }
  pub(crate) fn k_len(&self) -> usize { self.k_tail().wrapping_sub(self.k_head()) }

  pub(crate) fn wf(&self) -> bool {
    let n = self.buf.len();
    let (h, t, ch, ct) = (self.k_head(), self.k_tail(), self.k_cached_head(), self.k_cached_tail());
    n >= 2
      && n.is_power_of_two()
      && self.mask == n - 1
      && self.cap >= 1
      && self.cap <= n
      && t.wrapping_sub(h) <= self.cap
      && t.wrapping_sub(ch) <= self.cap
      && h.wrapping_sub(ch) <= t.wrapping_sub(ch)
      && ct.wrapping_sub(h) <= t.wrapping_sub(h)
  }

  /// Set indices to an arbitrary well-formed configuration; returns the number of live items.
  pub(crate) fn k_any_indices(&self) -> usize {
    let head: usize = kani::any();
    let len: usize = kani::any();
    kani::assume(len <= self.cap);
    let tail = head.wrapping_add(len);
    // cached_head = head - back, with tail - cached_head = len + back <= cap
    let back: usize = kani::any();
    kani::assume(back <= self.cap - len);
    let fwd: usize = kani::any();
    kani::assume(fwd <= len);
    self.c.head.store(head, Ordering::Relaxed);
    self.p.tail.store(tail, Ordering::Relaxed);
    unsafe {
      *self.p.cached_head.get() = head.wrapping_sub(back);
      *self.c.cached_tail.get() = head.wrapping_add(fwd);
    }
    len
  }
}

impl<T: Copy> Ring<T> {
  pub(crate) fn view_at(&self, i: usize) -> T {
    let idx = self.k_head().wrapping_add(i) & self.mask;
    unsafe { (*self.buf[idx].get()).assume_init_read() }
  }
}

pub(crate) fn fill_u8(r: &Ring<u8>, len: usize) {
  let vals: [u8; MAXN] = kani::any();
  let mut i = 0;
  while i < MAXN {
    if i < len {
      let idx = r.k_head().wrapping_add(i) & r.mask;
      unsafe { (*r.buf[idx].get()).write(vals[i]); }
    }
    i += 1;
  }
}

pub(crate) fn any_ring_u8(cap: usize) -> Ring<u8> {
  let r = Ring::<u8>::new(cap);
  let len = r.k_any_indices();
  fill_u8(&r, len);
  r
}

fn snapshot(r: &Ring<u8>) -> ([u8; MAXN], usize) {
  let n = r.k_len();
  let mut out = [0u8; MAXN];
  let mut i = 0;
  while i < MAXN {
    if i < n { out[i] = r.view_at(i); }
    i += 1;
  }
  (out, n)
}

fn same_prefix(a: &[u8; MAXN], b: &[u8; MAXN], n: usize) -> bool {
  let mut i = 0;
  let mut ok = true;
  while i < MAXN {
    if i < n && a[i] != b[i] { ok = false; }
    i += 1;
  }
  ok
}

fn step_new(c: usize) {
  let r = Ring::<u8>::new(c);
  assert!(r.wf());
  assert!(r.k_len() == 0);
  assert!(r.capacity() == c); // capacity() is the requested value, not the physical buffer
  assert!(r.len() == 0 && r.is_empty() && !r.is_full());
  kani::cover!(r.buf.len() >= c);
  kani::cover!(true, "END");
}

fn step_push(cap: usize) {
  let r = any_ring_u8(cap);
  assert!(r.wf());
  let (old, n) = snapshot(&r);
  let head0 = r.k_head();
  let ct0 = r.k_cached_tail();
  let v: u8 = kani::any();
  let res = r.push(v);
  assert!(r.wf());
  assert!(r.capacity() == cap);
  // frame: the producer never writes consumer-owned state
  assert!(r.k_head() == head0 && r.k_cached_tail() == ct0);
  let (new, m) = snapshot(&r);
  match res {
    Ok(()) => {
      // succeeds exactly when fewer than the LOGICAL capacity are buffered
      assert!(n < cap);
      assert!(m == n + 1);
      assert!(same_prefix(&old, &new, n));
      assert!(new[n] == v);
      kani::cover!(n == 0);
      kani::cover!(n + 1 == cap);
      kani::cover!(r.k_tail() < r.k_head()); // wrapped index
    }
    Err(x) => {
      assert!(n == cap);
      assert!(x == v);
      assert!(m == n);
      assert!(same_prefix(&old, &new, n));
      kani::cover!(true);
    }
  }
  kani::cover!(true, "END");
}

fn step_pop(cap: usize) {
  let r = any_ring_u8(cap);
  let (old, n) = snapshot(&r);
  let tail0 = r.k_tail();
  let ch0 = r.k_cached_head();
  let res = r.pop();
  assert!(r.wf());
  assert!(r.k_tail() == tail0 && r.k_cached_head() == ch0);
  let (new, m) = snapshot(&r);
  match res {
    Some(x) => {
      assert!(n > 0);
      assert!(x == old[0]);
      assert!(m == n - 1);
      let mut i = 0;
      while i + 1 < MAXN { if i < m { assert!(new[i] == old[i + 1]); } i += 1; }
      kani::cover!(n == cap);
      kani::cover!(n == 1);
      kani::cover!(r.k_head() == 0);
    }
    None => {
      // None only after a refresh proves the ring is empty
      assert!(n == 0 && m == 0);
      kani::cover!(true);
    }
  }
  kani::cover!(true, "END");
}

fn step_observers(cap: usize) {
  let r = any_ring_u8(cap);
  let (old, n) = snapshot(&r);
  assert!(r.len() == n);
  assert!(r.len() <= r.capacity());
  assert!(r.is_full() == (n == cap));
  assert!(r.is_empty() == (n == 0));
  let free = r.producer_free_space();
  assert!(free == cap - n);
  assert!(r.wf());
  assert!(r.k_cached_head() == r.k_head());
  let (new, m) = snapshot(&r);
  assert!(m == n && same_prefix(&old, &new, n));
  kani::cover!(n == cap);
  kani::cover!(n == 0);
  kani::cover!(true, "END");
}

fn any_ring_d(cap: usize) -> (Ring<D>, usize) {
  let r = Ring::<D>::new(cap);
  let len = r.k_any_indices();
  let mut i = 0;
  while i < MAXN {
    if i < len {
      let idx = r.k_head().wrapping_add(i) & r.mask;
      unsafe { (*r.buf[idx].get()).write(D(i as u8)); }
    }
    i += 1;
  }
  (r, len)
}

fn step_drop_once(cap: usize) {
  let (r, len) = any_ring_d(cap);
  let op: u8 = kani::any();
  kani::assume(op < 3);
  let mut created = len;
  match op {
    0 => {
      let res = r.push(D(created as u8));
      created += 1;
      if let Err(d) = res {
        assert!(len == cap);
        assert!(drops(created - 1) == 0);
        drop(d);
        kani::cover!(true);
      }
    }
    1 => {
      if let Some(d) = r.pop() {
        assert!(d.0 == 0 && drops(0) == 0);
        drop(d);
        assert!(drops(0) == 1);
        kani::cover!(len == cap);
      }
    }
    _ => {}
  }
  drop(r);
  let mut i = 0;
  while i < MAXN + 1 {
    if i < created { assert!(drops(i) == 1); } else { assert!(drops(i) == 0); }
    i += 1;
  }
  kani::cover!(op == 0 && len == cap);
  kani::cover!(op == 2 && len == cap);
  kani::cover!(true, "END");
}

// @obligation id=spsc.ring.new.cap1 props=C01,C03 kind=step tier=quick bound="logical capacity 1 (physical 2); head any usize (wrap included); caches any legal staleness; "
#[kani::proof]
#[kani::unwind(6)]
fn ob_spsc_ring_new_cap1() { step_new(1); }

// @obligation id=spsc.ring.new.cap3 props=C01,C03 kind=step tier=quick bound="logical capacity 3 (physical 4); head any usize (wrap included); caches any legal staleness; "
#[kani::proof]
#[kani::unwind(6)]
fn ob_spsc_ring_new_cap3() { step_new(3); }

// @obligation id=spsc.ring.new.cap4 props=C01,C03 kind=step tier=quick bound="logical capacity 4 (physical 4); head any usize (wrap included); caches any legal staleness; "
#[kani::proof]
#[kani::unwind(6)]
fn ob_spsc_ring_new_cap4() { step_new(4); }

// @obligation id=spsc.ring.push.cap1 props=C01,C02,C03 kind=step tier=quick bound="logical capacity 1 (physical 2); head any usize (wrap included); caches any legal staleness; payload any u8"
#[kani::proof]
#[kani::unwind(6)]
fn ob_spsc_ring_push_cap1() { step_push(1); }

// @obligation id=spsc.ring.push.cap2 props=C01,C02,C03 kind=step tier=quick bound="logical capacity 2 (physical 2); head any usize (wrap included); caches any legal staleness; payload any u8"
#[kani::proof]
#[kani::unwind(6)]
fn ob_spsc_ring_push_cap2() { step_push(2); }

// @obligation id=spsc.ring.push.cap3 props=C01,C02,C03 kind=step tier=quick bound="logical capacity 3 (physical 4); head any usize (wrap included); caches any legal staleness; payload any u8"
#[kani::proof]
#[kani::unwind(6)]
fn ob_spsc_ring_push_cap3() { step_push(3); }

// @obligation id=spsc.ring.push.cap4 props=C01,C02,C03 kind=step tier=quick bound="logical capacity 4 (physical 4); head any usize (wrap included); caches any legal staleness; payload any u8"
#[kani::proof]
#[kani::unwind(6)]
fn ob_spsc_ring_push_cap4() { step_push(4); }

// @obligation id=spsc.ring.pop.cap1 props=C01,C02 kind=step tier=quick bound="logical capacity 1 (physical 2); head any usize (wrap included); caches any legal staleness; payload any u8"
#[kani::proof]
#[kani::unwind(6)]
fn ob_spsc_ring_pop_cap1() { step_pop(1); }

// @obligation id=spsc.ring.pop.cap2 props=C01,C02 kind=step tier=quick bound="logical capacity 2 (physical 2); head any usize (wrap included); caches any legal staleness; payload any u8"
#[kani::proof]
#[kani::unwind(6)]
fn ob_spsc_ring_pop_cap2() { step_pop(2); }

// @obligation id=spsc.ring.pop.cap3 props=C01,C02 kind=step tier=quick bound="logical capacity 3 (physical 4); head any usize (wrap included); caches any legal staleness; payload any u8"
#[kani::proof]
#[kani::unwind(6)]
fn ob_spsc_ring_pop_cap3() { step_pop(3); }

// @obligation id=spsc.ring.pop.cap4 props=C01,C02 kind=step tier=quick bound="logical capacity 4 (physical 4); head any usize (wrap included); caches any legal staleness; payload any u8"
#[kani::proof]
#[kani::unwind(6)]
fn ob_spsc_ring_pop_cap4() { step_pop(4); }

// @obligation id=spsc.ring.observers.cap1 props=C03 kind=step tier=quick bound="logical capacity 1 (physical 2); head any usize (wrap included); caches any legal staleness; len/is_full/is_empty/producer_free_space"
#[kani::proof]
#[kani::unwind(6)]
fn ob_spsc_ring_observers_cap1() { step_observers(1); }

// @obligation id=spsc.ring.observers.cap3 props=C03 kind=step tier=quick bound="logical capacity 3 (physical 4); head any usize (wrap included); caches any legal staleness; len/is_full/is_empty/producer_free_space"
#[kani::proof]
#[kani::unwind(6)]
fn ob_spsc_ring_observers_cap3() { step_observers(3); }

// @obligation id=spsc.ring.observers.cap4 props=C03 kind=step tier=quick bound="logical capacity 4 (physical 4); head any usize (wrap included); caches any legal staleness; len/is_full/is_empty/producer_free_space"
#[kani::proof]
#[kani::unwind(6)]
fn ob_spsc_ring_observers_cap4() { step_observers(4); }

// @obligation id=spsc.ring.drop_once.cap1 props=C09 kind=step tier=quick bound="logical capacity 1 (physical 2); head any usize (wrap included); caches any legal staleness; one push/pop then drop; drop counters"
#[kani::proof]
#[kani::unwind(6)]
fn ob_spsc_ring_drop_once_cap1() { step_drop_once(1); }

// @obligation id=spsc.ring.drop_once.cap3 props=C09 kind=step tier=quick bound="logical capacity 3 (physical 4); head any usize (wrap included); caches any legal staleness; one push/pop then drop; drop counters"
#[kani::proof]
#[kani::unwind(6)]
fn ob_spsc_ring_drop_once_cap3() { step_drop_once(3); }

// @obligation id=spsc.ring.drop_once.cap4 props=C09 kind=step tier=quick bound="logical capacity 4 (physical 4); head any usize (wrap included); caches any legal staleness; one push/pop then drop; drop counters"
#[kani::proof]
#[kani::unwind(6)]
fn ob_spsc_ring_drop_once_cap4() { step_drop_once(4); }

// ---- SpscShared batch cores ---------------------------------------------------

fn any_shared_u8(cap: usize) -> (SpscShared<u8>, usize) {
  let s = SpscShared::<u8>::new_internal(cap);
  let len = s.ring.k_any_indices();
  fill_u8(&s.ring, len);
  (s, len)
}

/// write_batch(iter, limit): pushes exactly k = min(limit, |iter|, cap - len) items, the first k of
/// the iterator in order, advances the iterator by exactly k, view' = view ++ xs[..k].
fn step_write_batch(cap: usize) {
  let (s, n) = any_shared_u8(cap);
  let (old, _) = snapshot(&s.ring);
  let xs: [u8; 3] = kani::any();
  let xlen: usize = kani::any();
  kani::assume(xlen <= 3);
  let limit: usize = kani::any();
  let mut it = xs[..xlen].iter().copied();
  let sent = s.write_batch(&mut it, limit);
  assert!(s.ring.wf());
  let free = cap - n;
  let k = if limit < xlen { limit } else { xlen };
  let k = if k < free { k } else { free };
  assert!(sent == k);
  let (new, m) = snapshot(&s.ring);
  assert!(m == n + k);
  assert!(same_prefix(&old, &new, n));
  let mut i = 0;
  while i < 3 { if i < k { assert!(new[n + i] == xs[i]); } i += 1; }
  // the iterator was advanced by exactly `sent`: the unsent tail is still there, in order
  let mut j = k;
  while j < 3 {
    if j < xlen { assert!(it.next() == Some(xs[j])); }
    j += 1;
  }
  assert!(it.next().is_none());
  kani::cover!(k == 0 && xlen > 0 && limit > 0); // full
  kani::cover!(k > 0 && k < xlen && k < limit || cap == 1); // partial because of space
  kani::cover!(k == xlen && xlen == 3 || cap < 3);
  kani::cover!(true, "END");
}

/// read_batch(out, max): appends the first k = min(max, len) items in order, view' = view[k..].
fn step_read_batch(cap: usize) {
  let (s, n) = any_shared_u8(cap);
  let (old, _) = snapshot(&s.ring);
  let max: usize = kani::any();
  kani::assume(max <= 5);
  let pre: u8 = kani::any();
  let mut out: Vec<u8> = Vec::new();
  out.push(pre);
  let got = s.read_batch(&mut out, max);
  assert!(s.ring.wf());
  let k = if max < n { max } else { n };
  assert!(got == k);
  assert!(out.len() == 1 + k && out[0] == pre);
  let (new, m) = snapshot(&s.ring);
  assert!(m == n - k);
  let mut i = 0;
  while i < MAXN {
    if i < k { assert!(out[1 + i] == old[i]); }
    if i < m { assert!(new[i] == old[i + k]); }
    i += 1;
  }
  kani::cover!(k == 0 && n > 0);
  kani::cover!((k > 0 && k < n) || cap == 1);
  kani::cover!(k == n && n == cap);
  kani::cover!(true, "END");
}

// @obligation id=spsc.shared.write_batch.cap1 props=C01,C02,C03 kind=step tier=quick bound="logical capacity 1; head any usize; input <= 3 items, limit any usize; no waiter registered"
#[kani::proof]
#[kani::stub(std::thread::current::current, crate::verif_k_stubs::stub_thread_current)]
#[kani::stub(parking_lot::RawMutex::lock_slow, crate::verif_k_stubs::stub_lock_slow)]
#[kani::stub(parking_lot::RawMutex::unlock_slow, crate::verif_k_stubs::stub_unlock_slow)]
#[kani::unwind(8)]
fn ob_spsc_shared_write_batch_cap1() { step_write_batch(1); }

// @obligation id=spsc.shared.write_batch.cap3 props=C01,C02,C03 kind=step tier=quick bound="logical capacity 3; head any usize; input <= 3 items, limit any usize; no waiter registered"
#[kani::proof]
#[kani::stub(std::thread::current::current, crate::verif_k_stubs::stub_thread_current)]
#[kani::stub(parking_lot::RawMutex::lock_slow, crate::verif_k_stubs::stub_lock_slow)]
#[kani::stub(parking_lot::RawMutex::unlock_slow, crate::verif_k_stubs::stub_unlock_slow)]
#[kani::unwind(8)]
fn ob_spsc_shared_write_batch_cap3() { step_write_batch(3); }

// @obligation id=spsc.shared.read_batch.cap1 props=C01,C02 kind=step tier=quick bound="logical capacity 1; head any usize; max <= 5; no waiter registered"
#[kani::proof]
#[kani::stub(std::thread::current::current, crate::verif_k_stubs::stub_thread_current)]
#[kani::stub(parking_lot::RawMutex::lock_slow, crate::verif_k_stubs::stub_lock_slow)]
#[kani::stub(parking_lot::RawMutex::unlock_slow, crate::verif_k_stubs::stub_unlock_slow)]
#[kani::unwind(8)]
fn ob_spsc_shared_read_batch_cap1() { step_read_batch(1); }

// @obligation id=spsc.shared.read_batch.cap3 props=C01,C02 kind=step tier=quick bound="logical capacity 3; head any usize; max <= 5; no waiter registered"
#[kani::proof]
#[kani::stub(std::thread::current::current, crate::verif_k_stubs::stub_thread_current)]
#[kani::stub(parking_lot::RawMutex::lock_slow, crate::verif_k_stubs::stub_lock_slow)]
#[kani::stub(parking_lot::RawMutex::unlock_slow, crate::verif_k_stubs::stub_unlock_slow)]
#[kani::unwind(8)]
fn ob_spsc_shared_read_batch_cap3() { step_read_batch(3); }
