// @unit crate=fibre file=channels/src/sync/wait_queue.rs
// @needs fibre/stubs.rs
// Step contracts for the intrusive wait list shared by HybridMutex / HybridRwLock.
//
// wf(list of n nodes): head/tail/next/prev describe one doubly linked chain of exactly `len` nodes,
// every chained node has linked == true, `writers` == number of chained writer nodes.
use super::*;
use crate::verif_k_stubs::*;

pub(crate) const NN: usize = 3;

pub(crate) fn task_node(is_writer: bool, w: usize) -> WaiterNode {
  WaiterNode::new_task(is_writer, waker(w))
}

impl WaitList {
  /// Walk the chain (at most NN steps) and compare with the expected node sequence.
  pub(crate) fn k_is_chain(&self, nodes: &[*mut WaiterNode; NN], n: usize) -> bool {
    let mut g = self.lock();
    let inner = g.inner();
    let mut ok = inner.len == n;
    let mut cur = inner.head;
    let mut prev: *mut WaiterNode = ptr::null_mut();
    let mut writers = 0usize;
    let mut i = 0;
    while i < NN {
      if i < n {
        if cur != nodes[i] { ok = false; } else {
          unsafe {
            if (*cur).prev != prev || !(*cur).linked { ok = false; }
            if (*cur).is_writer { writers += 1; }
            prev = cur;
            cur = (*cur).next;
          }
        }
      }
      i += 1;
    }
    if !cur.is_null() { ok = false; }
    if inner.tail != prev { ok = false; }
    if inner.writers != writers { ok = false; }
    ok
  }
  pub(crate) fn k_len(&self) -> usize { let mut g = self.lock(); g.inner().len }
}

pub(crate) fn node_linked(n: *mut WaiterNode) -> bool { unsafe { (*n).linked } }
pub(crate) fn node_state(n: *mut WaiterNode) -> u8 { unsafe { (*n).state.load(Ordering::Relaxed) } }
pub(crate) fn node_has_waiter(n: *mut WaiterNode) -> bool { unsafe { (*n).waiter.is_some() } }
pub(crate) fn node_is_writer(n: *mut WaiterNode) -> bool { unsafe { (*n).is_writer } }

/// A list with `n` linked task nodes (wakers 0..n, writer flags symbolic).
fn build(list: &WaitList, store: &mut [WaiterNode; NN], n: usize) -> [*mut WaiterNode; NN] {
  let mut ptrs = [ptr::null_mut(); NN];
  let mut i = 0;
  while i < NN {
    ptrs[i] = &mut store[i] as *mut WaiterNode;
    i += 1;
  }
  let mut g = list.lock();
  let mut i = 0;
  while i < NN {
    if i < n { unsafe { g.link_back(ptrs[i]); } }
    i += 1;
  }
  drop(g);
  ptrs
}

fn any_store() -> [WaiterNode; NN] {
  [task_node(kani::any(), 0), task_node(kani::any(), 1), task_node(kani::any(), 2)]
}

fn step_link_back(n: usize) {
  let list = WaitList::new();
  let mut store = any_store();
  let ptrs = build(&list, &mut store, n);
  assert!(list.k_is_chain(&ptrs, n));
  // link one more at the BACK (FIFO)
  { let mut g = list.lock(); unsafe { g.link_back(ptrs[n]); } }
  assert!(list.k_is_chain(&ptrs, n + 1));
  assert!(node_linked(ptrs[n]) && node_state(ptrs[n]) == WAITING && node_has_waiter(ptrs[n]));
  let mut g = list.lock();
  assert!(!g.is_empty());
  assert!(g.head() == ptrs[0]);
  kani::cover!(true, "END");
}

fn step_unlink(n: usize, k: usize) {
  let list = WaitList::new();
  let mut store = any_store();
  let ptrs = build(&list, &mut store, n);
  let r = { let mut g = list.lock(); unsafe { g.unlink(ptrs[k]) } };
  assert!(r);
  assert!(!node_linked(ptrs[k]));
  // the others keep their order
  let mut rest = [ptr::null_mut(); NN];
  let mut j = 0;
  let mut i = 0;
  while i < NN { if i < n && i != k { rest[j] = ptrs[i]; j += 1; } i += 1; }
  assert!(list.k_is_chain(&rest, n - 1));
  // unlinking an unlinked node is a no-op that reports false (a node is linked at most once)
  let r2 = { let mut g = list.lock(); unsafe { g.unlink(ptrs[k]) } };
  assert!(!r2);
  assert!(list.k_is_chain(&rest, n - 1));
  let mut g = list.lock();
  assert!(g.is_empty() == (n == 1));
  kani::cover!(true, "END");
}

fn step_wake_ops(n: usize, k: usize) {
  let list = WaitList::new();
  let mut store = any_store();
  let ptrs = build(&list, &mut store, n);
  let mut g = list.lock();
  // first_writer = first node in FIFO order whose writer flag is set
  let fw = g.first_writer();
  let mut want: *mut WaiterNode = ptr::null_mut();
  let mut i = NN;
  while i > 0 { i -= 1; if i < n && node_is_writer(ptrs[i]) { want = ptrs[i]; } }
  assert!(fw == want);
  let mut wr = 0; let mut i = 0;
  while i < NN { if i < n && node_is_writer(ptrs[i]) { wr += 1; } i += 1; }
  assert!(g.queued_writers() == wr);
  // take_and_mark_woken: hands out the waiter exactly once, marks WOKEN, leaves the node linked
  let w1 = unsafe { g.take_and_mark_woken(ptrs[k]) };
  assert!(w1.is_some() && node_state(ptrs[k]) == WOKEN && node_linked(ptrs[k]) && !node_has_waiter(ptrs[k]));
  let w2 = unsafe { g.take_and_mark_woken(ptrs[k]) };
  assert!(w2.is_none());
  // rearm: fresh waiter, state back to WAITING, still linked exactly once
  unsafe { g.rearm(ptrs[k], Waiter::Task(waker(3))); }
  assert!(node_state(ptrs[k]) == WAITING && node_has_waiter(ptrs[k]) && unsafe { g.is_linked(ptrs[k]) });
  drop(g);
  assert!(list.k_is_chain(&ptrs, n));
  w1.unwrap().wake();
  assert!(wakes(k) == 1);
  kani::cover!(true, "END");
}

// @obligation id=lock.list.link_back.n0 props=C10 kind=step tier=quick bound="0 linked nodes + 1; writer flags any; link_back appends at the tail"
#[kani::proof]
#[kani::stub(std::thread::current::current, crate::verif_k_stubs::stub_thread_current)]
#[kani::unwind(5)]
fn ob_lock_list_link_back_n0() { step_link_back(0); }

// @obligation id=lock.list.link_back.n1 props=C10 kind=step tier=quick bound="1 linked nodes + 1; writer flags any; link_back appends at the tail"
#[kani::proof]
#[kani::stub(std::thread::current::current, crate::verif_k_stubs::stub_thread_current)]
#[kani::unwind(5)]
fn ob_lock_list_link_back_n1() { step_link_back(1); }

// @obligation id=lock.list.link_back.n2 props=C10 kind=step tier=quick bound="2 linked nodes + 1; writer flags any; link_back appends at the tail"
#[kani::proof]
#[kani::stub(std::thread::current::current, crate::verif_k_stubs::stub_thread_current)]
#[kani::unwind(5)]
fn ob_lock_list_link_back_n2() { step_link_back(2); }

// @obligation id=lock.list.unlink.n1k0 props=C10 kind=step tier=quick bound="1 linked nodes, unlink node 0; writer flags any; unlink twice"
#[kani::proof]
#[kani::stub(std::thread::current::current, crate::verif_k_stubs::stub_thread_current)]
#[kani::unwind(5)]
fn ob_lock_list_unlink_n1k0() { step_unlink(1, 0); }

// @obligation id=lock.list.unlink.n2k0 props=C10 kind=step tier=quick bound="2 linked nodes, unlink node 0; writer flags any; unlink twice"
#[kani::proof]
#[kani::stub(std::thread::current::current, crate::verif_k_stubs::stub_thread_current)]
#[kani::unwind(5)]
fn ob_lock_list_unlink_n2k0() { step_unlink(2, 0); }

// @obligation id=lock.list.unlink.n2k1 props=C10 kind=step tier=quick bound="2 linked nodes, unlink node 1; writer flags any; unlink twice"
#[kani::proof]
#[kani::stub(std::thread::current::current, crate::verif_k_stubs::stub_thread_current)]
#[kani::unwind(5)]
fn ob_lock_list_unlink_n2k1() { step_unlink(2, 1); }

// @obligation id=lock.list.unlink.n3k0 props=C10 kind=step tier=quick bound="3 linked nodes, unlink node 0; writer flags any; unlink twice"
#[kani::proof]
#[kani::stub(std::thread::current::current, crate::verif_k_stubs::stub_thread_current)]
#[kani::unwind(5)]
fn ob_lock_list_unlink_n3k0() { step_unlink(3, 0); }

// @obligation id=lock.list.unlink.n3k1 props=C10 kind=step tier=quick bound="3 linked nodes, unlink node 1; writer flags any; unlink twice"
#[kani::proof]
#[kani::stub(std::thread::current::current, crate::verif_k_stubs::stub_thread_current)]
#[kani::unwind(5)]
fn ob_lock_list_unlink_n3k1() { step_unlink(3, 1); }

// @obligation id=lock.list.unlink.n3k2 props=C10 kind=step tier=quick bound="3 linked nodes, unlink node 2; writer flags any; unlink twice"
#[kani::proof]
#[kani::stub(std::thread::current::current, crate::verif_k_stubs::stub_thread_current)]
#[kani::unwind(5)]
fn ob_lock_list_unlink_n3k2() { step_unlink(3, 2); }

// @obligation id=lock.list.wake_ops.n1k0 props=C10 kind=step tier=quick bound="1 linked nodes, node 0; writer flags any; first_writer, queued_writers, take_and_mark_woken twice, rearm"
#[kani::proof]
#[kani::stub(std::thread::current::current, crate::verif_k_stubs::stub_thread_current)]
#[kani::unwind(5)]
fn ob_lock_list_wake_ops_n1k0() { step_wake_ops(1, 0); }

// @obligation id=lock.list.wake_ops.n3k1 props=C10 kind=step tier=quick bound="3 linked nodes, node 1; writer flags any; first_writer, queued_writers, take_and_mark_woken twice, rearm"
#[kani::proof]
#[kani::stub(std::thread::current::current, crate::verif_k_stubs::stub_thread_current)]
#[kani::unwind(5)]
fn ob_lock_list_wake_ops_n3k1() { step_wake_ops(3, 1); }

// @obligation id=lock.list.wake_ops.n3k2 props=C10 kind=step tier=quick bound="3 linked nodes, node 2; writer flags any; first_writer, queued_writers, take_and_mark_woken twice, rearm"
#[kani::proof]
#[kani::stub(std::thread::current::current, crate::verif_k_stubs::stub_thread_current)]
#[kani::unwind(5)]
fn ob_lock_list_wake_ops_n3k2() { step_wake_ops(3, 2); }
