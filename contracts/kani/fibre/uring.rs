// @unit crate=fibre file=channels/src/internal/unsynchronized_ring.rs
// @needs fibre/stubs.rs
// Contracts and proof harnesses for channels/src/internal/unsynchronized_ring.rs
// Injected as `#[cfg(kani)] mod verif_k;` child of that module (reads private fields).
//
// View: the sequence of live slots head..tail taken through the mask.
// wf():  buffer.len == mask+1, power of two, tail - head (wrapping) <= mask+1.
use super::*;

pub(crate) const MAXCAP: usize = 4;

impl<T> UnsynchronizedRingBuffer<T> {
  /// Representation invariant, derived from `new`, `push`, `pop`.
  pub(crate) fn wf(&self) -> bool {
    let cap = self.buffer.len();
    cap >= 1
      && cap.is_power_of_two()
      && self.mask == cap - 1
      && self.tail.wrapping_sub(self.head) <= cap
  }
}

impl<T: Copy> UnsynchronizedRingBuffer<T> {
  /// Abstract view element i (0 = oldest). Only for i < len().
  pub(crate) fn view_at(&self, i: usize) -> T {
    let idx = self.head.wrapping_add(i) & self.mask;
    unsafe { (*self.buffer[idx].get()).assume_init_read() }
  }
}

/// Arbitrary well-formed ring of physical capacity 1, 2 or 4 holding arbitrary
/// u8 values, with `head` ranging over all of usize (wrap-around included).
pub(crate) fn any_ring_u8(cap: usize) -> UnsynchronizedRingBuffer<u8> {
  let mut r = UnsynchronizedRingBuffer::<u8>::new(cap);
  let head: usize = kani::any();
  let len: usize = kani::any();
  kani::assume(len <= cap);
  r.head = head;
  r.tail = head.wrapping_add(len);
  let vals: [u8; MAXCAP] = kani::any();
  let mut i = 0;
  while i < MAXCAP {
    if i < len {
      let idx = head.wrapping_add(i) & r.mask;
      unsafe { (*r.buffer[idx].get()).write(vals[i]); }
    }
    i += 1;
  }
  r
}

fn snapshot(r: &UnsynchronizedRingBuffer<u8>) -> ([u8; MAXCAP], usize) {
  let n = r.len();
  let mut out = [0u8; MAXCAP];
  let mut i = 0;
  while i < MAXCAP {
    if i < n { out[i] = r.view_at(i); }
    i += 1;
  }
  (out, n)
}

// @obligation id=uring.new props=C01,C03 kind=step tier=quick bound="requested capacity 1..=4"
#[kani::proof]
#[kani::unwind(6)]
fn ob_uring_new() {
  let c: usize = kani::any();
  kani::assume(c >= 1 && c <= 4);
  let r = UnsynchronizedRingBuffer::<u8>::new(c);
  assert!(r.wf());
  assert!(r.len() == 0 && r.is_empty());
  assert!(r.capacity() >= c && r.capacity() < 2 * c);
  kani::cover!(r.capacity() == 4 && c == 3);
  kani::cover!(true, "END");
}

fn step_push(cap0: usize) {
  let mut r = any_ring_u8(cap0);
  assert!(r.wf());
  let (old, n) = snapshot(&r);
  let cap = r.capacity();
  let was_full = r.is_full();
  assert!(was_full == (n == cap));
  let v: u8 = kani::any();
  let res = r.push(v);
  assert!(r.wf());
  assert!(r.capacity() == cap);
  let (new, m) = snapshot(&r);
  match res {
    Ok(()) => {
      // succeeds exactly when fewer than cap are buffered; view' = view ++ [v]
      assert!(n < cap);
      assert!(m == n + 1);
      let mut i = 0;
      while i < MAXCAP { if i < n { assert!(new[i] == old[i]); } i += 1; }
      assert!(new[n] == v);
      kani::cover!(n == 0);
      kani::cover!(n + 1 == cap);
      kani::cover!(r.tail < r.head); // index wrap
    }
    Err(x) => {
      // Full hands the value back and leaves the view untouched
      assert!(n == cap);
      assert!(x == v);
      assert!(m == n);
      let mut i = 0;
      while i < MAXCAP { if i < n { assert!(new[i] == old[i]); } i += 1; }
      kani::cover!(true);
    }
  }
  kani::cover!(true, "END");
}

fn step_pop(cap0: usize) {
  let mut r = any_ring_u8(cap0);
  let (old, n) = snapshot(&r);
  let cap = r.capacity();
  assert!(r.is_empty() == (n == 0));
  let res = r.pop();
  assert!(r.wf());
  assert!(r.capacity() == cap);
  let (new, m) = snapshot(&r);
  match res {
    Some(x) => {
      assert!(n > 0);
      assert!(x == old[0]);
      assert!(m == n - 1);
      let mut i = 0;
      while i + 1 < MAXCAP { if i < m { assert!(new[i] == old[i + 1]); } i += 1; }
      kani::cover!(n == cap);
      kani::cover!(n == 1);
      kani::cover!(r.head == 0); // head wrapped from usize::MAX
    }
    None => {
      assert!(n == 0 && m == 0);
      kani::cover!(true);
    }
  }
  kani::cover!(true, "END");
}

use crate::verif_k_stubs::{D, drops};

/// Arbitrary well-formed ring holding D(0..len) values.
fn any_ring_d(cap: usize) -> (UnsynchronizedRingBuffer<D>, usize) {
  let mut r = UnsynchronizedRingBuffer::<D>::new(cap);
  let head: usize = kani::any();
  let len: usize = kani::any();
  kani::assume(len <= cap);
  r.head = head;
  r.tail = head.wrapping_add(len);
  let mut i = 0;
  while i < MAXCAP {
    if i < len {
      let idx = head.wrapping_add(i) & r.mask;
      unsafe { (*r.buffer[idx].get()).write(D(i as u8)); }
    }
    i += 1;
  }
  (r, len)
}

fn step_drop_once(cap0: usize) {
  let (mut r, len) = any_ring_d(cap0);
  let op: u8 = kani::any();
  kani::assume(op < 4);
  let mut created = len; // ids 0..created exist
  match op {
    0 => {
      // push one more; on Full the value comes back and is dropped by us
      let res = r.push(D(created as u8));
      created += 1;
      if let Err(d) = res {
        assert!(drops(created - 1) == 0);
        drop(d);
        assert!(drops(created - 1) == 1);
        kani::cover!(true);
      }
    }
    1 => {
      if let Some(d) = r.pop() {
        assert!(d.0 == 0);
        assert!(drops(0) == 0);
        drop(d);
        assert!(drops(0) == 1);
        kani::cover!(len == cap0);
      }
    }
    2 => {
      r.clear();
      assert!(r.is_empty());
      let mut i = 0;
      while i < MAXCAP { if i < len { assert!(drops(i) == 1); } i += 1; }
    }
    _ => {}
  }
  drop(r);
  let mut i = 0;
  while i < MAXCAP + 1 {
    if i < created { assert!(drops(i) == 1); } else { assert!(drops(i) == 0); }
    i += 1;
  }
  kani::cover!(op == 0 && len == cap0);
  kani::cover!(op == 2 && len == cap0);
  kani::cover!(op == 3 && len == cap0);
  kani::cover!(true, "END");
}

// @obligation id=uring.push.cap1 props=C01,C02,C03 kind=step tier=quick bound="physical capacity 1; head any usize (wrap included); payload any u8"
#[kani::proof]
#[kani::unwind(6)]
fn ob_uring_push_cap1() { step_push(1); }

// @obligation id=uring.push.cap2 props=C01,C02,C03 kind=step tier=quick bound="physical capacity 2; head any usize (wrap included); payload any u8"
#[kani::proof]
#[kani::unwind(6)]
fn ob_uring_push_cap2() { step_push(2); }

// @obligation id=uring.push.cap4 props=C01,C02,C03 kind=step tier=quick bound="physical capacity 4; head any usize (wrap included); payload any u8"
#[kani::proof]
#[kani::unwind(6)]
fn ob_uring_push_cap4() { step_push(4); }

// @obligation id=uring.pop.cap1 props=C01,C02 kind=step tier=quick bound="physical capacity 1; head any usize (wrap included); payload any u8"
#[kani::proof]
#[kani::unwind(6)]
fn ob_uring_pop_cap1() { step_pop(1); }

// @obligation id=uring.pop.cap2 props=C01,C02 kind=step tier=quick bound="physical capacity 2; head any usize (wrap included); payload any u8"
#[kani::proof]
#[kani::unwind(6)]
fn ob_uring_pop_cap2() { step_pop(2); }

// @obligation id=uring.pop.cap4 props=C01,C02 kind=step tier=quick bound="physical capacity 4; head any usize (wrap included); payload any u8"
#[kani::proof]
#[kani::unwind(6)]
fn ob_uring_pop_cap4() { step_pop(4); }

// @obligation id=uring.drop_once.cap1 props=C09 kind=step tier=quick bound="physical capacity 1; head any usize (wrap included); payload any u8"
#[kani::proof]
#[kani::unwind(6)]
fn ob_uring_drop_once_cap1() { step_drop_once(1); }

// @obligation id=uring.drop_once.cap2 props=C09 kind=step tier=quick bound="physical capacity 2; head any usize (wrap included); payload any u8"
#[kani::proof]
#[kani::unwind(6)]
fn ob_uring_drop_once_cap2() { step_drop_once(2); }

// @obligation id=uring.drop_once.cap4 props=C09 kind=step tier=quick bound="physical capacity 4; head any usize (wrap included); payload any u8"
#[kani::proof]
#[kani::unwind(6)]
fn ob_uring_drop_once_cap4() { step_drop_once(4); }

// ---- helpers used by the units of the ring's clients (mpmc core) ---------------------
impl<T> UnsynchronizedRingBuffer<T> {
  /// Put the ring into an arbitrary well-formed index configuration holding `len` items
  /// (slots must then be written with `k_write`).  head ranges over all of usize.
  pub(crate) fn k_set_any_indices(&mut self, len: usize) {
    let head: usize = kani::any();
    self.head = head;
    self.tail = head.wrapping_add(len);
  }
  pub(crate) fn k_write(&mut self, i: usize, v: T) {
    let idx = self.head.wrapping_add(i) & self.mask;
    unsafe { (*self.buffer[idx].get()).write(v); }
  }
}
