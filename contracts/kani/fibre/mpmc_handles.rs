// @unit crate=fibre file=channels/src/mpmc_v2/mod.rs
// @needs fibre/stubs.rs
// @needs fibre/uring.rs
// @needs fibre/mpmc_core.rs
// Handle-level obligations of C04 for the bounded MPMC handles (Sender, Receiver, AsyncSender, AsyncReceiver):
// per-handle `closed` flag, idempotent close, side counts, conversions.  Each harness is a tiny history
// (construct, at most one clone, close, ONE call of the method under test) - bounded stand-ins, kind=hist.
//
// Snapshot = (buffer view, sender_count, receiver_count, #async receiver waiters, #async sender waiters):
// "no effect on the channel" means the snapshot is unchanged.
use super::*;
use crate::error::*;
use crate::verif_k_stubs::*;
use std::future::Future;
use std::task::{Context, Poll};

type Snap = (([u8; crate::mpmc_v2::core::verif_k_mpmc_core::MAXN], usize), (usize, usize), usize, usize);
fn snap(sh: &MpmcShared<u8>) -> Snap { (sh.k_view(), sh.k_counts(), sh.k_nr(), sh.k_ns()) }

pub(crate) fn stub_instant_now() -> std::time::Instant { unsafe { std::mem::zeroed() } }

fn poll_once<F: Future>(f: std::pin::Pin<&mut F>, w: usize) -> Poll<F::Output> {
  let wk = waker(w);
  let mut cx = Context::from_waker(&wk);
  f.poll(&mut cx)
}

/// bounded(1) channel with `fill` items buffered and the side counts raised to 2 (as if one more clone of each
/// side were alive) so that closing the handle under test disconnects nothing.  Handles that are not under
/// test are leaked with mem::forget at the end of each harness: the shared state's own teardown is C09's
/// business and costs ~1 min of CBMC time per harness.
fn prefilled(fill: bool) -> (Sender<u8>, Receiver<u8>, u8) {
  let (tx, rx) = bounded::<u8>(1);
  let a: u8 = kani::any();
  if fill { assert!(tx.try_send(a).is_ok()); }
  { let mut g = tx.shared.internal.lock(); g.sender_count = 2; g.receiver_count = 2; }
  (tx, rx, a)
}

// ---- gate: every public operation of a CLOSED handle fails with the Closed/Disconnected error of its type,
// hands the value(s) back and leaves the channel untouched; close is idempotent; drop does not decrement again.
fn gate_sender() {
  let (tx, rx, _a) = prefilled(false);
  assert!(tx.close().is_ok());
  let s0 = snap(&tx.shared);
  assert!(s0.1 == (1, 2));
  let x: u8 = kani::any();
  let y: u8 = kani::any();
  match tx.try_send(x) { Err(TrySendError::Closed(v)) => assert!(v == x), _ => panic!("closed Sender::try_send did not report Closed") }
  match tx.send(x) { Err(SendError::Closed) => {}, _ => panic!("closed Sender::send did not report Closed") }
  match tx.try_send_batch(vec![x, y]) {
    Err(e) => { assert!(e.sent == 0 && e.unsent.len() == 2 && e.unsent[0] == x && e.unsent[1] == y); assert!(matches!(e.reason, BatchSendErrorReason::Closed)); }
    _ => panic!("closed Sender::try_send_batch did not fail") }
  match tx.send_batch(vec![x, y]) {
    Err(e) => { assert!(e.sent == 0 && e.unsent.len() == 2 && e.unsent[0] == x && e.unsent[1] == y); }
    _ => panic!("closed Sender::send_batch did not fail") }
  { let mut v = vec![x, y]; match tx.try_send_batch_mut(&mut v) { Err(SendError::Closed) => assert!(v.len() == 2 && v[0] == x && v[1] == y), _ => panic!("closed Sender::try_send_batch_mut did not report Closed") } }
  { let mut v = vec![x, y]; match tx.send_batch_mut(&mut v) { Err(SendError::Closed) => assert!(v.len() == 2 && v[0] == x && v[1] == y), _ => panic!("closed Sender::send_batch_mut did not report Closed") } }
  assert!(tx.close().is_err()); // idempotent close: second call reports CloseError
  assert!(snap(&tx.shared) == s0);
  drop(tx); // Drop of a closed handle must not decrement again
  assert!(snap(&rx.shared) == s0);
  assert!(!rx.is_closed());
  std::mem::forget(rx);
  kani::cover!(true, "END");
}

fn gate_receiver() {
  let (tx, rx, _a) = prefilled(true);
  assert!(rx.close().is_ok());
  let s0 = snap(&rx.shared);
  assert!(s0.1 == (2, 1) && (s0.0).1 == 1);
  assert!(matches!(rx.try_recv(), Err(TryRecvError::Disconnected)));
  assert!(matches!(rx.recv(), Err(RecvError::Disconnected)));
  assert!(matches!(rx.try_recv_batch(2), Err(TryRecvError::Disconnected)));
  { let mut out = Vec::new(); assert!(matches!(rx.try_recv_batch_mut(&mut out, 2), Err(TryRecvError::Disconnected))); assert!(out.is_empty()); }
  assert!(matches!(rx.recv_batch(2), Err(RecvError::Disconnected)));
  { let mut out = Vec::new(); assert!(matches!(rx.recv_batch_mut(&mut out, 2), Err(RecvError::Disconnected))); assert!(out.is_empty()); }
  assert!(matches!(rx.recv_timeout(std::time::Duration::from_millis(5)), Err(RecvErrorTimeout::Disconnected)));
  assert!(rx.close().is_err());
  assert!(snap(&rx.shared) == s0); // in particular the buffered value is still there
  drop(rx);
  assert!(snap(&tx.shared) == s0);
  assert!(!tx.is_closed());
  std::mem::forget(tx);
  kani::cover!(true, "END");
}

fn prefilled_async(fill: bool) -> (AsyncSender<u8>, AsyncReceiver<u8>, u8) {
  let (tx, rx) = bounded_async::<u8>(1);
  let a: u8 = kani::any();
  if fill { assert!(tx.try_send(a).is_ok()); }
  { let mut g = tx.shared.internal.lock(); g.sender_count = 2; g.receiver_count = 2; }
  (tx, rx, a)
}

fn gate_async_sender() {
  let (tx, rx, _a) = prefilled_async(false);
  assert!(tx.close().is_ok());
  let s0 = snap(&tx.shared);
  assert!(s0.1 == (1, 2));
  let x: u8 = kani::any();
  let y: u8 = kani::any();
  match tx.try_send(x) { Err(TrySendError::Closed(v)) => assert!(v == x), _ => panic!("closed AsyncSender::try_send did not report Closed") }
  { let f = tx.send(x); let mut f = std::pin::pin!(f); match poll_once(f.as_mut(), 0) { Poll::Ready(Err(SendError::Closed)) => {}, _ => panic!("closed AsyncSender::send did not resolve to Closed") } }
  match tx.try_send_batch(vec![x, y]) {
    Err(e) => { assert!(e.sent == 0 && e.unsent.len() == 2 && e.unsent[0] == x && e.unsent[1] == y); assert!(matches!(e.reason, BatchSendErrorReason::Closed)); }
    _ => panic!("closed AsyncSender::try_send_batch did not fail") }
  { let f = tx.send_batch(vec![x, y]); let mut f = std::pin::pin!(f); match poll_once(f.as_mut(), 0) {
      Poll::Ready(Err(e)) => assert!(e.sent == 0 && e.unsent.len() == 2 && e.unsent[0] == x && e.unsent[1] == y),
      _ => panic!("closed AsyncSender::send_batch did not resolve to an error") } }
  { let mut v = vec![x, y]; match tx.try_send_batch_mut(&mut v) { Err(SendError::Closed) => assert!(v.len() == 2 && v[0] == x && v[1] == y), _ => panic!("closed AsyncSender::try_send_batch_mut did not report Closed") } }
  { let mut v = vec![x, y]; { let f = tx.send_batch_mut(&mut v); let mut f = std::pin::pin!(f); match poll_once(f.as_mut(), 0) {
      Poll::Ready(Err(SendError::Closed)) => {}, _ => panic!("closed AsyncSender::send_batch_mut did not resolve to Closed") } } assert!(v.len() == 2 && v[0] == x && v[1] == y); }
  assert!(tx.close().is_err());
  assert!(snap(&tx.shared) == s0 && wakes(0) == 0);
  drop(tx);
  assert!(snap(&rx.shared) == s0);
  assert!(!rx.is_closed());
  std::mem::forget(rx);
  kani::cover!(true, "END");
}

fn gate_async_receiver() {
  let (tx, rx, _a) = prefilled_async(true);
  assert!(rx.close().is_ok());
  let s0 = snap(&rx.shared);
  assert!(s0.1 == (2, 1) && (s0.0).1 == 1);
  assert!(matches!(rx.try_recv(), Err(TryRecvError::Disconnected)));
  { let f = rx.recv(); let mut f = std::pin::pin!(f); assert!(matches!(poll_once(f.as_mut(), 0), Poll::Ready(Err(RecvError::Disconnected)))); }
  assert!(matches!(rx.try_recv_batch(2), Err(TryRecvError::Disconnected)));
  { let mut out = Vec::new(); assert!(matches!(rx.try_recv_batch_mut(&mut out, 2), Err(TryRecvError::Disconnected))); assert!(out.is_empty()); }
  { let f = rx.recv_batch(2); let mut f = std::pin::pin!(f); assert!(matches!(poll_once(f.as_mut(), 0), Poll::Ready(Err(RecvError::Disconnected)))); }
  { let mut out = Vec::new(); { let f = rx.recv_batch_mut(&mut out, 2); let mut f = std::pin::pin!(f); assert!(matches!(poll_once(f.as_mut(), 0), Poll::Ready(Err(RecvError::Disconnected)))); } assert!(out.is_empty()); }
  assert!(rx.close().is_err());
  assert!(snap(&rx.shared) == s0);
  drop(rx);
  assert!(snap(&tx.shared) == s0);
  assert!(!tx.is_closed());
  std::mem::forget(tx);
  kani::cover!(true, "END");
}

// ---- conversions carry the closed flag and the counts ----------------------------------------------------
fn conv_sender(close_first: bool) {
  let (tx, rx, _a) = prefilled(true);
  if close_first { assert!(tx.close().is_ok()); }
  let s0 = snap(&rx.shared);
  let rc0 = std::sync::Arc::strong_count(&rx.shared);
  let atx = tx.to_async();
  assert!(snap(&rx.shared) == s0 && std::sync::Arc::strong_count(&rx.shared) == rc0);
  let x: u8 = kani::any();
  if close_first {
    match atx.try_send(x) { Err(TrySendError::Closed(v)) => assert!(v == x), _ => panic!("to_async revived a closed Sender") }
    assert!(atx.close().is_err());
    drop(atx);
    assert!(snap(&rx.shared) == s0); // no second decrement
  } else {
    let back = atx.to_sync();
    assert!(snap(&rx.shared) == s0 && std::sync::Arc::strong_count(&rx.shared) == rc0);
    assert!(back.close().is_ok());
    assert!(rx.shared.k_counts() == (s0.1.0 - 1, s0.1.1));
    std::mem::forget(back);
  }
  assert!(!rx.is_closed());
  std::mem::forget(rx);
  kani::cover!(true, "END");
}
fn conv_receiver(close_first: bool) {
  let (tx, rx, _a) = prefilled(true);
  if close_first { assert!(rx.close().is_ok()); }
  let s0 = snap(&tx.shared);
  let rc0 = std::sync::Arc::strong_count(&tx.shared);
  let arx = rx.to_async();
  assert!(snap(&tx.shared) == s0 && std::sync::Arc::strong_count(&tx.shared) == rc0);
  if close_first {
    assert!(matches!(arx.try_recv(), Err(TryRecvError::Disconnected)));
    assert!(arx.close().is_err());
    drop(arx);
    assert!(snap(&tx.shared) == s0);
  } else {
    let back = arx.to_sync();
    assert!(snap(&tx.shared) == s0 && std::sync::Arc::strong_count(&tx.shared) == rc0);
    assert!(back.close().is_ok());
    assert!(tx.shared.k_counts() == (s0.1.0, s0.1.1 - 1));
    std::mem::forget(back);
  }
  assert!(!tx.is_closed());
  std::mem::forget(tx);
  kani::cover!(true, "END");
}
fn conv_async_sender_closed() {
  let (tx, rx, _a) = prefilled_async(true);
  assert!(tx.close().is_ok());
  let s0 = snap(&rx.shared);
  let stx = tx.to_sync();
  let x: u8 = kani::any();
  match stx.try_send(x) { Err(TrySendError::Closed(v)) => assert!(v == x), _ => panic!("to_sync revived a closed AsyncSender") }
  assert!(stx.close().is_err());
  drop(stx);
  assert!(snap(&rx.shared) == s0);
  std::mem::forget(rx);
  kani::cover!(true, "END");
}
fn conv_async_receiver_closed() {
  let (tx, rx, _a) = prefilled_async(true);
  assert!(rx.close().is_ok());
  let s0 = snap(&tx.shared);
  let srx = rx.to_sync();
  assert!(matches!(srx.try_recv(), Err(TryRecvError::Disconnected)));
  assert!(srx.close().is_err());
  drop(srx);
  assert!(snap(&tx.shared) == s0);
  std::mem::forget(tx);
  kani::cover!(true, "END");
}

// ---- counts: one of two clones disconnects nothing; the last one flips exactly once ------------------------
fn count_senders(by_drop: bool) {
  let (tx, rx) = bounded::<u8>(1);
  let tx2 = tx.clone();
  assert!(rx.shared.k_counts() == (2, 1));
  let a: u8 = kani::any();
  assert!(tx.try_send(a).is_ok());
  if by_drop { drop(tx); } else { assert!(tx.close().is_ok()); drop(tx); }
  assert!(rx.shared.k_counts() == (1, 1));
  // peer unaffected: still Empty-not-Disconnected after draining
  assert!(rx.try_recv() == Ok(a));
  assert!(matches!(rx.try_recv(), Err(TryRecvError::Empty)));
  let b: u8 = kani::any();
  assert!(tx2.try_send(b).is_ok());
  if by_drop { drop(tx2); } else { assert!(tx2.close().is_ok()); }
  assert!(rx.shared.k_counts() == (0, 1));
  // drain then Disconnected, and it stays Disconnected
  assert!(rx.try_recv() == Ok(b));
  assert!(matches!(rx.try_recv(), Err(TryRecvError::Disconnected)));
  assert!(matches!(rx.try_recv(), Err(TryRecvError::Disconnected)));
  std::mem::forget(rx);
  kani::cover!(true, "END");
}
fn count_receivers(by_drop: bool) {
  let (tx, rx) = bounded::<u8>(1);
  let rx2 = rx.clone();
  assert!(tx.shared.k_counts() == (1, 2));
  if by_drop { drop(rx); } else { assert!(rx.close().is_ok()); drop(rx); }
  assert!(tx.shared.k_counts() == (1, 1));
  let a: u8 = kani::any();
  assert!(tx.try_send(a).is_ok());
  if by_drop { drop(rx2); } else { assert!(rx2.close().is_ok()); }
  assert!(tx.shared.k_counts() == (1, 0));
  let b: u8 = kani::any();
  match tx.try_send(b) { Err(TrySendError::Closed(v)) => assert!(v == b), _ => panic!("send after the last receiver is gone did not report Closed") }
  let mut v = vec![b];
  match tx.try_send_batch_mut(&mut v) { Err(SendError::Closed) => assert!(v.len() == 1 && v[0] == b), _ => panic!("try_send_batch_mut after the last receiver is gone") }
  std::mem::forget(tx);
  kani::cover!(true, "END");
}

/// after the last receiver is gone every send form of an OPEN sender reports Closed and hands the value(s) back,
/// leaving the channel untouched (receiver_count is set to 0 directly: that drop_receiver does so is a core obligation)
fn closed_value_sender() {
  let (tx, rx, _a) = prefilled(false);
  { let mut g = tx.shared.internal.lock(); g.receiver_count = 0; }
  let s0 = snap(&tx.shared);
  let x: u8 = kani::any();
  let y: u8 = kani::any();
  match tx.try_send(x) { Err(TrySendError::Closed(v)) => assert!(v == x), _ => panic!("try_send after the last receiver is gone") }
  match tx.try_send_batch(vec![x, y]) { Err(e) => { assert!(e.sent == 0 && e.unsent.len() == 2 && e.unsent[0] == x && e.unsent[1] == y); assert!(matches!(e.reason, BatchSendErrorReason::Closed)); } _ => panic!("try_send_batch after the last receiver is gone") }
  { let mut v = vec![x, y]; match tx.try_send_batch_mut(&mut v) { Err(SendError::Closed) => assert!(v.len() == 2 && v[0] == x && v[1] == y), _ => panic!("try_send_batch_mut after the last receiver is gone") } }
  assert!(snap(&tx.shared) == s0);
  std::mem::forget(tx); std::mem::forget(rx);
  kani::cover!(true, "END");
}
fn closed_value_async_sender() {
  let (tx, rx, _a) = prefilled_async(false);
  { let mut g = tx.shared.internal.lock(); g.receiver_count = 0; }
  let s0 = snap(&tx.shared);
  let x: u8 = kani::any();
  let y: u8 = kani::any();
  match tx.try_send(x) { Err(TrySendError::Closed(v)) => assert!(v == x), _ => panic!("try_send after the last receiver is gone") }
  match tx.try_send_batch(vec![x, y]) { Err(e) => { assert!(e.sent == 0 && e.unsent.len() == 2 && e.unsent[0] == x && e.unsent[1] == y); assert!(matches!(e.reason, BatchSendErrorReason::Closed)); } _ => panic!("try_send_batch after the last receiver is gone") }
  { let mut v = vec![x, y]; match tx.try_send_batch_mut(&mut v) { Err(SendError::Closed) => assert!(v.len() == 2 && v[0] == x && v[1] == y), _ => panic!("try_send_batch_mut after the last receiver is gone") } }
  assert!(snap(&tx.shared) == s0);
  std::mem::forget(tx); std::mem::forget(rx);
  kani::cover!(true, "END");
}

/// (MEASURED: no result within the 1 h harness timeout at ~8 GB: tier=probe; the repair is covered by the core-level
/// step contracts mpmc.core.forward_* and the native demonstration findings/mpmc_wake_forward_demo.rs.)
/// C06 "dropping a pending future ... does not swallow a wakeup that another waiting task needs":
/// two receive futures A (waker 0) and B (waker 1) are pending on an empty channel; one send wakes A; A is dropped
/// before it is polled again.  The value is still buffered and B is still parked: B must be woken, and then gets it.
fn cancel_forward() {
  let (tx, rx) = bounded_async::<u8>(1);
  let rx2 = rx.clone();
  let mut fa = Box::pin(rx.recv());
  let mut fb = Box::pin(rx2.recv());
  assert!(poll_once(fa.as_mut(), 0).is_pending());
  assert!(poll_once(fb.as_mut(), 1).is_pending());
  assert!(tx.shared.k_nr() == 2);
  let x: u8 = kani::any();
  assert!(tx.try_send(x).is_ok());
  assert!(wakes(0) == 1 && wakes(1) == 0);
  drop(fa);
  assert!(tx.shared.k_view().1 == 1, "the buffered value must survive the cancellation");
  assert!(wakes(1) >= 1, "a cancelled receive future swallowed the wake-up the other pending receiver needs");
  match poll_once(fb.as_mut(), 1) { Poll::Ready(Ok(v)) => assert!(v == x), _ => panic!("the remaining receiver did not get the value") }
  drop(fb);
  std::mem::forget(tx); std::mem::forget(rx); std::mem::forget(rx2);
  kani::cover!(true, "END");
}

// @obligation id=c04.mpmc.gate.Sender props=C04,C01 kind=hist tier=quick bound="bounded(1), empty for sender gates and holding one item (any u8) for receiver gates and conversions, side counts raised to 2 so that nothing disconnects; closed Sender: try_send, send, try_send_batch, send_batch, try_send_batch_mut, send_batch_mut, second close, drop - one call each"
#[kani::proof]
#[kani::stub(std::thread::current::current, crate::verif_k_stubs::stub_thread_current)]
#[kani::stub(parking_lot::RawMutex::lock_slow, crate::verif_k_stubs::stub_lock_slow)]
#[kani::stub(parking_lot::RawMutex::unlock_slow, crate::verif_k_stubs::stub_unlock_slow)]
#[kani::stub(crate::sync::mutex::HybridMutex::lock_slow, crate::mpmc_v2::core::verif_k_mpmc_core::stub_hm_lock_slow)]
#[kani::stub(std::thread::park, crate::verif_k_stubs::stub_park)]
#[kani::stub(std::thread::park_timeout, crate::verif_k_stubs::stub_park_timeout)]
#[kani::stub(std::time::Instant::now, stub_instant_now)]
#[kani::unwind(6)]
fn ob_c04_mpmc_gate_sender() { gate_sender(); }

// @obligation id=c04.mpmc.gate.Receiver props=C04,C01 kind=hist tier=quick bound="bounded(1), empty for sender gates and holding one item (any u8) for receiver gates and conversions, side counts raised to 2 so that nothing disconnects; closed Receiver: try_recv, recv, try_recv_batch, try_recv_batch_mut, recv_batch, recv_batch_mut, recv_timeout, second close, drop - one call each"
#[kani::proof]
#[kani::stub(std::thread::current::current, crate::verif_k_stubs::stub_thread_current)]
#[kani::stub(parking_lot::RawMutex::lock_slow, crate::verif_k_stubs::stub_lock_slow)]
#[kani::stub(parking_lot::RawMutex::unlock_slow, crate::verif_k_stubs::stub_unlock_slow)]
#[kani::stub(crate::sync::mutex::HybridMutex::lock_slow, crate::mpmc_v2::core::verif_k_mpmc_core::stub_hm_lock_slow)]
#[kani::stub(std::thread::park, crate::verif_k_stubs::stub_park)]
#[kani::stub(std::thread::park_timeout, crate::verif_k_stubs::stub_park_timeout)]
#[kani::stub(std::time::Instant::now, stub_instant_now)]
#[kani::unwind(6)]
fn ob_c04_mpmc_gate_receiver() { gate_receiver(); }

// @obligation id=c04.mpmc.gate.AsyncSender props=C04,C01 kind=hist tier=quick bound="bounded(1), empty for sender gates and holding one item (any u8) for receiver gates and conversions, side counts raised to 2 so that nothing disconnects; closed AsyncSender: try_send, send, try_send_batch, send_batch, try_send_batch_mut, send_batch_mut (futures polled once), second close, drop"
#[kani::proof]
#[kani::stub(std::thread::current::current, crate::verif_k_stubs::stub_thread_current)]
#[kani::stub(parking_lot::RawMutex::lock_slow, crate::verif_k_stubs::stub_lock_slow)]
#[kani::stub(parking_lot::RawMutex::unlock_slow, crate::verif_k_stubs::stub_unlock_slow)]
#[kani::stub(crate::sync::mutex::HybridMutex::lock_slow, crate::mpmc_v2::core::verif_k_mpmc_core::stub_hm_lock_slow)]
#[kani::stub(std::thread::park, crate::verif_k_stubs::stub_park)]
#[kani::stub(std::thread::park_timeout, crate::verif_k_stubs::stub_park_timeout)]
#[kani::stub(std::time::Instant::now, stub_instant_now)]
#[kani::unwind(6)]
fn ob_c04_mpmc_gate_async_sender() { gate_async_sender(); }

// @obligation id=c04.mpmc.gate.AsyncReceiver props=C04,C01 kind=hist tier=quick bound="bounded(1), empty for sender gates and holding one item (any u8) for receiver gates and conversions, side counts raised to 2 so that nothing disconnects; closed AsyncReceiver: try_recv, recv, try_recv_batch, try_recv_batch_mut, recv_batch, recv_batch_mut (futures polled once), second close, drop"
#[kani::proof]
#[kani::stub(std::thread::current::current, crate::verif_k_stubs::stub_thread_current)]
#[kani::stub(parking_lot::RawMutex::lock_slow, crate::verif_k_stubs::stub_lock_slow)]
#[kani::stub(parking_lot::RawMutex::unlock_slow, crate::verif_k_stubs::stub_unlock_slow)]
#[kani::stub(crate::sync::mutex::HybridMutex::lock_slow, crate::mpmc_v2::core::verif_k_mpmc_core::stub_hm_lock_slow)]
#[kani::stub(std::thread::park, crate::verif_k_stubs::stub_park)]
#[kani::stub(std::thread::park_timeout, crate::verif_k_stubs::stub_park_timeout)]
#[kani::stub(std::time::Instant::now, stub_instant_now)]
#[kani::unwind(6)]
fn ob_c04_mpmc_gate_async_receiver() { gate_async_receiver(); }

// @obligation id=c04.mpmc.conv.Sender.closed props=C04,C01 kind=hist tier=quick bound="bounded(1), empty for sender gates and holding one item (any u8) for receiver gates and conversions, side counts raised to 2 so that nothing disconnects; close, to_async, try_send, close, drop"
#[kani::proof]
#[kani::stub(std::thread::current::current, crate::verif_k_stubs::stub_thread_current)]
#[kani::stub(parking_lot::RawMutex::lock_slow, crate::verif_k_stubs::stub_lock_slow)]
#[kani::stub(parking_lot::RawMutex::unlock_slow, crate::verif_k_stubs::stub_unlock_slow)]
#[kani::stub(crate::sync::mutex::HybridMutex::lock_slow, crate::mpmc_v2::core::verif_k_mpmc_core::stub_hm_lock_slow)]
#[kani::stub(std::thread::park, crate::verif_k_stubs::stub_park)]
#[kani::stub(std::thread::park_timeout, crate::verif_k_stubs::stub_park_timeout)]
#[kani::stub(std::time::Instant::now, stub_instant_now)]
#[kani::unwind(6)]
fn ob_c04_mpmc_conv_sender_closed() { conv_sender(true); }

// @obligation id=c04.mpmc.conv.Sender.open props=C04,C01 kind=hist tier=quick bound="bounded(1), empty for sender gates and holding one item (any u8) for receiver gates and conversions, side counts raised to 2 so that nothing disconnects; to_async, to_sync, close"
#[kani::proof]
#[kani::stub(std::thread::current::current, crate::verif_k_stubs::stub_thread_current)]
#[kani::stub(parking_lot::RawMutex::lock_slow, crate::verif_k_stubs::stub_lock_slow)]
#[kani::stub(parking_lot::RawMutex::unlock_slow, crate::verif_k_stubs::stub_unlock_slow)]
#[kani::stub(crate::sync::mutex::HybridMutex::lock_slow, crate::mpmc_v2::core::verif_k_mpmc_core::stub_hm_lock_slow)]
#[kani::stub(std::thread::park, crate::verif_k_stubs::stub_park)]
#[kani::stub(std::thread::park_timeout, crate::verif_k_stubs::stub_park_timeout)]
#[kani::stub(std::time::Instant::now, stub_instant_now)]
#[kani::unwind(6)]
fn ob_c04_mpmc_conv_sender_open() { conv_sender(false); }

// @obligation id=c04.mpmc.conv.Receiver.closed props=C04,C01 kind=hist tier=quick bound="bounded(1), empty for sender gates and holding one item (any u8) for receiver gates and conversions, side counts raised to 2 so that nothing disconnects; close, to_async, try_recv, close, drop"
#[kani::proof]
#[kani::stub(std::thread::current::current, crate::verif_k_stubs::stub_thread_current)]
#[kani::stub(parking_lot::RawMutex::lock_slow, crate::verif_k_stubs::stub_lock_slow)]
#[kani::stub(parking_lot::RawMutex::unlock_slow, crate::verif_k_stubs::stub_unlock_slow)]
#[kani::stub(crate::sync::mutex::HybridMutex::lock_slow, crate::mpmc_v2::core::verif_k_mpmc_core::stub_hm_lock_slow)]
#[kani::stub(std::thread::park, crate::verif_k_stubs::stub_park)]
#[kani::stub(std::thread::park_timeout, crate::verif_k_stubs::stub_park_timeout)]
#[kani::stub(std::time::Instant::now, stub_instant_now)]
#[kani::unwind(6)]
fn ob_c04_mpmc_conv_receiver_closed() { conv_receiver(true); }

// @obligation id=c04.mpmc.conv.Receiver.open props=C04,C01 kind=hist tier=quick bound="bounded(1), empty for sender gates and holding one item (any u8) for receiver gates and conversions, side counts raised to 2 so that nothing disconnects; to_async, to_sync, close"
#[kani::proof]
#[kani::stub(std::thread::current::current, crate::verif_k_stubs::stub_thread_current)]
#[kani::stub(parking_lot::RawMutex::lock_slow, crate::verif_k_stubs::stub_lock_slow)]
#[kani::stub(parking_lot::RawMutex::unlock_slow, crate::verif_k_stubs::stub_unlock_slow)]
#[kani::stub(crate::sync::mutex::HybridMutex::lock_slow, crate::mpmc_v2::core::verif_k_mpmc_core::stub_hm_lock_slow)]
#[kani::stub(std::thread::park, crate::verif_k_stubs::stub_park)]
#[kani::stub(std::thread::park_timeout, crate::verif_k_stubs::stub_park_timeout)]
#[kani::stub(std::time::Instant::now, stub_instant_now)]
#[kani::unwind(6)]
fn ob_c04_mpmc_conv_receiver_open() { conv_receiver(false); }

// @obligation id=c04.mpmc.conv.AsyncSender.closed props=C04,C01 kind=hist tier=quick bound="bounded(1), empty for sender gates and holding one item (any u8) for receiver gates and conversions, side counts raised to 2 so that nothing disconnects"
#[kani::proof]
#[kani::stub(std::thread::current::current, crate::verif_k_stubs::stub_thread_current)]
#[kani::stub(parking_lot::RawMutex::lock_slow, crate::verif_k_stubs::stub_lock_slow)]
#[kani::stub(parking_lot::RawMutex::unlock_slow, crate::verif_k_stubs::stub_unlock_slow)]
#[kani::stub(crate::sync::mutex::HybridMutex::lock_slow, crate::mpmc_v2::core::verif_k_mpmc_core::stub_hm_lock_slow)]
#[kani::stub(std::thread::park, crate::verif_k_stubs::stub_park)]
#[kani::stub(std::thread::park_timeout, crate::verif_k_stubs::stub_park_timeout)]
#[kani::stub(std::time::Instant::now, stub_instant_now)]
#[kani::unwind(6)]
fn ob_c04_mpmc_conv_async_sender_closed() { conv_async_sender_closed(); }

// @obligation id=c04.mpmc.conv.AsyncReceiver.closed props=C04,C01 kind=hist tier=quick bound="bounded(1), empty for sender gates and holding one item (any u8) for receiver gates and conversions, side counts raised to 2 so that nothing disconnects"
#[kani::proof]
#[kani::stub(std::thread::current::current, crate::verif_k_stubs::stub_thread_current)]
#[kani::stub(parking_lot::RawMutex::lock_slow, crate::verif_k_stubs::stub_lock_slow)]
#[kani::stub(parking_lot::RawMutex::unlock_slow, crate::verif_k_stubs::stub_unlock_slow)]
#[kani::stub(crate::sync::mutex::HybridMutex::lock_slow, crate::mpmc_v2::core::verif_k_mpmc_core::stub_hm_lock_slow)]
#[kani::stub(std::thread::park, crate::verif_k_stubs::stub_park)]
#[kani::stub(std::thread::park_timeout, crate::verif_k_stubs::stub_park_timeout)]
#[kani::stub(std::time::Instant::now, stub_instant_now)]
#[kani::unwind(6)]
fn ob_c04_mpmc_conv_async_receiver_closed() { conv_async_receiver_closed(); }

// @obligation id=c04.mpmc.count.senders.drop props=C04 kind=hist tier=thorough bound="bounded(1), two sender clones, drop one then the other; drain then Disconnected"
#[kani::proof]
#[kani::stub(std::thread::current::current, crate::verif_k_stubs::stub_thread_current)]
#[kani::stub(parking_lot::RawMutex::lock_slow, crate::verif_k_stubs::stub_lock_slow)]
#[kani::stub(parking_lot::RawMutex::unlock_slow, crate::verif_k_stubs::stub_unlock_slow)]
#[kani::stub(crate::sync::mutex::HybridMutex::lock_slow, crate::mpmc_v2::core::verif_k_mpmc_core::stub_hm_lock_slow)]
#[kani::stub(std::thread::park, crate::verif_k_stubs::stub_park)]
#[kani::stub(std::thread::park_timeout, crate::verif_k_stubs::stub_park_timeout)]
#[kani::stub(std::time::Instant::now, stub_instant_now)]
#[kani::unwind(6)]
fn ob_c04_mpmc_count_senders_drop() { count_senders(true); }

// @obligation id=c04.mpmc.count.senders.close props=C04 kind=hist tier=quick bound="bounded(1), two sender clones, close one then the other; drain then Disconnected"
#[kani::proof]
#[kani::stub(std::thread::current::current, crate::verif_k_stubs::stub_thread_current)]
#[kani::stub(parking_lot::RawMutex::lock_slow, crate::verif_k_stubs::stub_lock_slow)]
#[kani::stub(parking_lot::RawMutex::unlock_slow, crate::verif_k_stubs::stub_unlock_slow)]
#[kani::stub(crate::sync::mutex::HybridMutex::lock_slow, crate::mpmc_v2::core::verif_k_mpmc_core::stub_hm_lock_slow)]
#[kani::stub(std::thread::park, crate::verif_k_stubs::stub_park)]
#[kani::stub(std::thread::park_timeout, crate::verif_k_stubs::stub_park_timeout)]
#[kani::stub(std::time::Instant::now, stub_instant_now)]
#[kani::unwind(6)]
fn ob_c04_mpmc_count_senders_close() { count_senders(false); }

// @obligation id=c04.mpmc.count.receivers.drop props=C04 kind=hist tier=probe bound="bounded(1), two receiver clones, drop one then the other; try_send / try_send_batch_mut report Closed with the value"
#[kani::proof]
#[kani::stub(std::thread::current::current, crate::verif_k_stubs::stub_thread_current)]
#[kani::stub(parking_lot::RawMutex::lock_slow, crate::verif_k_stubs::stub_lock_slow)]
#[kani::stub(parking_lot::RawMutex::unlock_slow, crate::verif_k_stubs::stub_unlock_slow)]
#[kani::stub(crate::sync::mutex::HybridMutex::lock_slow, crate::mpmc_v2::core::verif_k_mpmc_core::stub_hm_lock_slow)]
#[kani::stub(std::thread::park, crate::verif_k_stubs::stub_park)]
#[kani::stub(std::thread::park_timeout, crate::verif_k_stubs::stub_park_timeout)]
#[kani::stub(std::time::Instant::now, stub_instant_now)]
#[kani::unwind(6)]
fn ob_c04_mpmc_count_receivers_drop() { count_receivers(true); }

// @obligation id=c04.mpmc.count.receivers.close props=C04 kind=hist tier=probe bound="bounded(1), two receiver clones, close one then the other"
#[kani::proof]
#[kani::stub(std::thread::current::current, crate::verif_k_stubs::stub_thread_current)]
#[kani::stub(parking_lot::RawMutex::lock_slow, crate::verif_k_stubs::stub_lock_slow)]
#[kani::stub(parking_lot::RawMutex::unlock_slow, crate::verif_k_stubs::stub_unlock_slow)]
#[kani::stub(crate::sync::mutex::HybridMutex::lock_slow, crate::mpmc_v2::core::verif_k_mpmc_core::stub_hm_lock_slow)]
#[kani::stub(std::thread::park, crate::verif_k_stubs::stub_park)]
#[kani::stub(std::thread::park_timeout, crate::verif_k_stubs::stub_park_timeout)]
#[kani::stub(std::time::Instant::now, stub_instant_now)]
#[kani::unwind(6)]
fn ob_c04_mpmc_count_receivers_close() { count_receivers(false); }

// @obligation id=c04.mpmc.closed_value.Sender props=C04,C01 kind=hist tier=quick bound="bounded(1) empty, receiver_count set to 0; payloads any u8; try_send, try_send_batch, try_send_batch_mut of an open Sender"
#[kani::proof]
#[kani::stub(std::thread::current::current, crate::verif_k_stubs::stub_thread_current)]
#[kani::stub(parking_lot::RawMutex::lock_slow, crate::verif_k_stubs::stub_lock_slow)]
#[kani::stub(parking_lot::RawMutex::unlock_slow, crate::verif_k_stubs::stub_unlock_slow)]
#[kani::stub(crate::sync::mutex::HybridMutex::lock_slow, crate::mpmc_v2::core::verif_k_mpmc_core::stub_hm_lock_slow)]
#[kani::stub(std::thread::park, crate::verif_k_stubs::stub_park)]
#[kani::stub(std::thread::park_timeout, crate::verif_k_stubs::stub_park_timeout)]
#[kani::stub(std::time::Instant::now, stub_instant_now)]
#[kani::unwind(6)]
fn ob_c04_mpmc_closed_value_sender() { closed_value_sender(); }

// @obligation id=c04.mpmc.closed_value.AsyncSender props=C04,C01 kind=hist tier=quick bound="bounded(1) empty, receiver_count set to 0; payloads any u8; try_send, try_send_batch, try_send_batch_mut of an open AsyncSender (the send future exceeds the memory cap)"
#[kani::proof]
#[kani::stub(std::thread::current::current, crate::verif_k_stubs::stub_thread_current)]
#[kani::stub(parking_lot::RawMutex::lock_slow, crate::verif_k_stubs::stub_lock_slow)]
#[kani::stub(parking_lot::RawMutex::unlock_slow, crate::verif_k_stubs::stub_unlock_slow)]
#[kani::stub(crate::sync::mutex::HybridMutex::lock_slow, crate::mpmc_v2::core::verif_k_mpmc_core::stub_hm_lock_slow)]
#[kani::stub(std::thread::park, crate::verif_k_stubs::stub_park)]
#[kani::stub(std::thread::park_timeout, crate::verif_k_stubs::stub_park_timeout)]
#[kani::stub(std::time::Instant::now, stub_instant_now)]
#[kani::unwind(6)]
fn ob_c04_mpmc_closed_value_async_sender() { closed_value_async_sender(); }

// @obligation id=c06.mpmc.cancel_forward.recv props=C06 kind=hist tier=probe bound="bounded_async(1), two pending RecvFutures, one try_send, the woken future dropped before re-poll"
#[kani::proof]
#[kani::stub(std::thread::current::current, crate::verif_k_stubs::stub_thread_current)]
#[kani::stub(parking_lot::RawMutex::lock_slow, crate::verif_k_stubs::stub_lock_slow)]
#[kani::stub(parking_lot::RawMutex::unlock_slow, crate::verif_k_stubs::stub_unlock_slow)]
#[kani::stub(crate::sync::mutex::HybridMutex::lock_slow, crate::mpmc_v2::core::verif_k_mpmc_core::stub_hm_lock_slow)]
#[kani::stub(std::thread::park, crate::verif_k_stubs::stub_park)]
#[kani::stub(std::thread::park_timeout, crate::verif_k_stubs::stub_park_timeout)]
#[kani::stub(std::time::Instant::now, stub_instant_now)]
#[kani::unwind(6)]
fn ob_c06_mpmc_cancel_forward_recv() { cancel_forward(); }
