# Verus unit: LruPolicy (cache/src/policy/lru.rs) verbatim against the ASSUMED LruList contract.
import os
_here = os.path.dirname(os.path.abspath(__file__))
exec(open(os.path.join(_here, "lib", "policy_common.py")).read())
IMPL = "impl<K, V> CachePolicy<K, V> for LruPolicy<K>"
OLD = "old(self).list.view()"
NEW = "final(self).list.view()"
UNIT = {
  "name": "policy_lru",
  "source": "cache/src/policy/lru.rs",
  "uses": [],
  "prelude": policy_prelude(os.path.join(_here, "lib")),
  "rewrites": POLICY_REWRITES,
  "items": [
    {"kind": "enum", "name": "AdmissionDecision", "source": "cache/src/policy/mod.rs"},
    {"kind": "struct", "name": "LruPolicy", "keep": ["list"]},
    {"kind": "fn", "name": "on_access", "impl": IMPL, "impl_as": "impl LruPolicy",
     "requires": ["old(self).list.wf()"],
     "ensures": [
       "final(self).list.wf()",
       # LRU definition: the accessed key becomes most recent, everything else keeps its relative order
       "!has_key(%s, *key) ==> %s == %s" % (OLD, NEW, OLD),
       "has_key(%s, *key) ==> %s == seq![(*key, cost_of(%s, *key))] + without(%s, *key)" % (OLD, NEW, OLD, OLD),
       # S-POL: an access never changes WHAT is tracked nor the recorded costs
       "forall|j: K| has_key(%s, j) == has_key(%s, j) && cost_of(%s, j) == cost_of(%s, j)" % (NEW, OLD, NEW, OLD),
     ],
     "splices": [{"at_end": True, "insert": [
       "proof {",
       "  let o = old(self).list.view(); let k = *key;",
       "  lemma_without_keys(o, k); lemma_without_cost(o, k); lemma_cons((k, cost_of(o, k)), without(o, k));",
       "}"]}],
     "obligation": {"id": "policy.v.lru.on_access", "props": ["C14"], "bound": "unbounded: every list, key"}},
    {"kind": "fn", "name": "on_admit", "impl": IMPL,
     "requires": ["old(self).list.wf()", "total(without(%s, *key)) + cost <= u64::MAX" % OLD],
     "ensures": [
       "final(self).list.wf()",
       "r matches AdmissionDecision::Admit",
       "%s == seq![(*key, cost)] + without(%s, *key)" % (NEW, OLD),
       # S-POL: the key is tracked exactly once with the NEW cost; nothing else changes
       "has_key(%s, *key) && cost_of(%s, *key) == cost" % (NEW, NEW),
       frame_others(OLD, NEW, "*key"),
     ],
     "splices": [{"before_tail": True, "insert": [
       "proof {",
       "  let o = old(self).list.view(); let k = *key;",
       "  lemma_without_keys(o, k); lemma_without_cost(o, k); lemma_cons((k, cost), without(o, k));",
       "}"]}],
     "obligation": {"id": "policy.v.lru.on_admit", "props": ["C14"], "bound": "unbounded: every list, key, cost (sum of costs <= u64::MAX)"}},
    {"kind": "fn", "name": "on_remove", "impl": IMPL,
     "requires": ["old(self).list.wf()"],
     "ensures": [
       "final(self).list.wf()",
       "%s == without(%s, *key)" % (NEW, OLD),
       "!has_key(%s, *key)" % NEW,
       frame_others(OLD, NEW, "*key"),
     ],
     "splices": [{"at_end": True, "insert": [
       "proof { let o = old(self).list.view(); lemma_without_keys(o, *key); lemma_without_cost(o, *key); }"]}],
     "obligation": {"id": "policy.v.lru.on_remove", "props": ["C14"], "bound": "unbounded"}},
    {"kind": "fn", "name": "evict", "impl": IMPL,
     "requires": ["old(self).list.wf()"],
     "ensures": [
       "final(self).list.wf()",
       "r.0.len() <= %s.len()" % OLD,
       # victims are exactly the least-recently-used suffix, least recent first
       "%s == %s.subrange(0, %s.len() - r.0.len())" % (NEW, OLD, OLD),
       "forall|j: int| 0 <= j < r.0.len() ==> r.0[j] == %s[%s.len() - 1 - j].0" % (OLD, OLD),
       # reported cost is exactly the recorded cost of the victims
       "r.1 as int == total(%s) - total(%s)" % (OLD, NEW),
       # frees at least what was asked unless nothing is left
       "r.1 >= cost_to_free || %s.len() == 0" % NEW,
     ],
     "loops": [{"at": "while total_cost_freed < cost_to_free {", "clauses": [
       "invariant list.wf(),",
       "  victims.len() <= %s.len()," % OLD,
       "  list.view() == %s.subrange(0, %s.len() - victims.len())," % (OLD, OLD),
       "  forall|j: int| 0 <= j < victims.len() ==> victims[j] == %s[%s.len() - 1 - j].0," % (OLD, OLD),
       "  total_cost_freed as int == total(%s) - total(list.view())," % OLD,
       "  total(%s) <= u64::MAX," % OLD,
       "ensures list.wf(),",
       "  victims.len() <= %s.len()," % OLD,
       "  list.view() == %s.subrange(0, %s.len() - victims.len())," % (OLD, OLD),
       "  forall|j: int| 0 <= j < victims.len() ==> victims[j] == %s[%s.len() - 1 - j].0," % (OLD, OLD),
       "  total_cost_freed as int == total(%s) - total(list.view())," % OLD,
       "  total_cost_freed >= cost_to_free || list.view().len() == 0,",
       "decreases list.view().len()",
     ]}],
     "splices": [{"after": "if let Some((key, cost)) = list.pop_back() {", "insert": ["proof { lemma_total_nonneg(list.view()); }"]}],
     "obligation": {"id": "policy.v.lru.evict", "props": ["C14"], "bound": "unbounded: every list, every cost_to_free, any number of iterations"}},
    {"kind": "fn", "name": "clear", "impl": IMPL,
     "requires": ["old(self).list.wf()"],
     "ensures": ["final(self).list.wf()", "%s.len() == 0" % NEW],
     "obligation": {"id": "policy.v.lru.clear", "props": ["C14"], "bound": "unbounded"}},
  ],
}
