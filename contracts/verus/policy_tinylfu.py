# Verus unit: TinyLfuPolicy (cache/src/policy/tinylfu.rs) verbatim against the ASSUMED LruList contract, the
# VERIFIED contracts of SlruState (re-extracted and re-verified here from slru.rs) and an ARBITRARY sketch:
# the count-min sketch (ahash) is outside both verifiers; every estimate it could return is covered.
import os
_here = os.path.dirname(os.path.abspath(__file__))
exec(open(os.path.join(_here, "lib", "policy_common.py")).read())
_slru = {"__file__": os.path.join(_here, "policy_slru.py")}
exec(open(os.path.join(_here, "policy_slru.py")).read(), _slru)
SIMPL = "impl<K: Eq + Hash + Clone> SlruState<K>"
PIMPL = "impl<K, V> CachePolicy<K, V> for TinyLfuPolicy<K>"

PRELUDE3 = """
// ---- the frequency sketch: arbitrary (external_body): increments change nothing that S-POL talks about ----
#[verifier::external_body]
pub struct CountMinSketch { _p: core::marker::PhantomData<u64> }
impl CountMinSketch {
  #[verifier::external_body]
  pub fn increment(&mut self, key: &K) { unimplemented!() }
  #[verifier::external_body]
  pub fn clear(&mut self) { unimplemented!() }
}
#[verifier::external_body]
pub fn havoc_bool() -> bool { unimplemented!() }

impl TinyLfuState {
  pub open spec fn inv(&self) -> bool {
    self.window.wf() && self.main.inv()
    && (forall|k: K| !(has_key(self.window.view(), k) && self.main.tracked(k)))
    && total(self.window.view()) + self.main.sum() <= u64::MAX
  }
  pub open spec fn tracked(&self, k: K) -> bool { has_key(self.window.view(), k) || self.main.tracked(k) }
  pub open spec fn cost(&self, k: K) -> u64 { if has_key(self.window.view(), k) { cost_of(self.window.view(), k) } else { self.main.cost(k) } }
  pub open spec fn sum(&self) -> int { total(self.window.view()) + self.main.sum() }
}
"""

REWRITES = POLICY_REWRITES + [
  [r"Mutex<TinyLfuState<K>>", "TinyLfuState", "lock elision (see above)"],
  [r"\bTinyLfuState<K>", "TinyLfuState", "K := u64"],
  [r"\bTinyLfuPolicy<K>", "TinyLfuPolicy", "K := u64"],
  [r"cms::CountMinSketch", "CountMinSketch", "the sketch is an external_body stand-in (arbitrary estimates)"],
  [r"let admit_candidate = main_victim_key_opt\n\s*\.as_ref\(\)\n\s*\.map_or\(true, \|main_victim_key\| \{\n[^\n]*\n\s*\}\);",
   "let admit_candidate = havoc_bool();\n\n\n\n",
   "the frequency comparison (closure over the sketch: pure, outside Verus' subset) is replaced by an ARBITRARY bool: every admission decision the filter could take is covered"],
]

slru_fns = []
for it in _slru["UNIT"]["items"]:
  if it["kind"] == "fn" and it["name"] in ("maintain_capacities", "admit_internal", "access_internal", "evict_items"):
    c = dict(it); c["source"] = "cache/src/policy/slru.rs"; c["impl"] = SIMPL; c["impl_as"] = "impl SlruState"
    c["obligation"] = None  # already an obligation of unit policy_slru; re-verified here as part of the file
    slru_fns.append(c)

UNIT = {
  "name": "policy_tinylfu",
  "source": "cache/src/policy/tinylfu.rs",
  "uses": [],
  "prelude": policy_prelude(os.path.join(_here, "lib")) + _slru["PRELUDE2"] + PRELUDE3,
  "rewrites": REWRITES,
  "items": [
    {"kind": "enum", "name": "AdmissionDecision", "source": "cache/src/policy/mod.rs"},
    {"kind": "struct", "name": "SlruState", "source": "cache/src/policy/slru.rs", "keep": ["probationary", "protected"]},
    {"kind": "struct", "name": "TinyLfuState", "keep": ["window", "main", "sketch"]},
    {"kind": "struct", "name": "TinyLfuPolicy", "keep": ["state", "window_target_cost", "main_prot_capacity"]},
  ] + slru_fns + [
    {"kind": "fn", "name": "peek_lru", "impl": SIMPL, "source": "cache/src/policy/slru.rs", "external_body": True,
     "ensures": ["*final(self) == *old(self)  /* read-only: takes &self in the source (the &mut comes from the lock-elision rewrite) */"]},

    {"kind": "fn", "name": "on_access", "impl": PIMPL, "impl_as": "impl TinyLfuPolicy",
     "requires": ["old(self).state.inv()", "old(self).state.sum() + cost <= u64::MAX"],
     "ensures": ["final(self).state.inv()",
                 "forall|j: K| final(self).state.tracked(j) == old(self).state.tracked(j)",
                 "forall|j: K| j != *key && old(self).state.tracked(j) ==> final(self).state.cost(j) == old(self).state.cost(j)"],
     "splices": [{"at_start": True, "insert": [
       "proof {",
       "  let k = *key; let w = old(self).state.window.view();",
       "  lemma_without_keys(w, k); lemma_without_cost(w, k); lemma_without_nodup(w, k); lemma_without_total(w, k); lemma_total_nonneg(without(w, k));",
       "  lemma_cons((k, cost), without(w, k)); lemma_total_nonneg(w);",
       "  lemma_total_nonneg(old(self).state.main.probationary.view()); lemma_total_nonneg(old(self).state.main.protected.view());",
       "}"]}],
     "obligation": {"id": "policy.v.tinylfu.on_access", "props": ["C14"], "bound": "unbounded; sketch arbitrary"}},
    {"kind": "fn", "name": "on_remove", "impl": PIMPL,
     "requires": ["old(self).state.inv()"],
     "ensures": ["final(self).state.inv()", "!final(self).state.tracked(*key)",
                 "forall|j: K| j != *key ==> final(self).state.tracked(j) == old(self).state.tracked(j) && final(self).state.cost(j) == old(self).state.cost(j)"],
     "splices": [{"at_start": True, "insert": [
       "proof {",
       "  let k = *key; let st = old(self).state;",
       "  lemma_without_keys(st.window.view(), k); lemma_without_cost(st.window.view(), k); lemma_without_nodup(st.window.view(), k); lemma_without_total(st.window.view(), k);",
       "  lemma_without_keys(st.main.probationary.view(), k); lemma_without_cost(st.main.probationary.view(), k); lemma_without_nodup(st.main.probationary.view(), k); lemma_without_total(st.main.probationary.view(), k);",
       "  lemma_without_keys(st.main.protected.view(), k); lemma_without_cost(st.main.protected.view(), k); lemma_without_nodup(st.main.protected.view(), k); lemma_without_total(st.main.protected.view(), k);",
       "}"]},
       {"before": "return;", "nth": 1, "of": 2, "insert": [
       "proof {",
       "  assert(state.main.probationary.view() == without(old(self).state.main.probationary.view(), *key));",
       "  assert(state.main.protected.view() == old(self).state.main.protected.view());",
       "  assert(state.main.inv());",
       "  assert(state.main.sum() <= old(self).state.main.sum());",
       "  assert(state.window.view() == without(old(self).state.window.view(), *key));",
       "  assert forall|j: K| !(has_key(state.window.view(), j) && state.main.tracked(j)) by { if has_key(state.window.view(), j) && state.main.tracked(j) { assert(has_key(old(self).state.window.view(), j)); assert(old(self).state.main.tracked(j)); } }",
       "  assert(state.inv());",
       "}"]},
       {"after": "state.main.protected.remove(key);", "insert": [
       "proof {",
       "  assert(state.main.protected.view() == without(old(self).state.main.protected.view(), *key));",
       "  assert(state.main.probationary.view() == without(old(self).state.main.probationary.view(), *key));",
       "  assert(state.main.inv());",
       "  assert(state.main.sum() <= old(self).state.main.sum());",
       "  assert(state.window.view() == without(old(self).state.window.view(), *key));",
       "  assert forall|j: K| !(has_key(state.window.view(), j) && state.main.tracked(j)) by { if has_key(state.window.view(), j) && state.main.tracked(j) { assert(has_key(old(self).state.window.view(), j)); assert(old(self).state.main.tracked(j)); } }",
       "  assert(state.inv());",
       "}"]}],
     "obligation": {"id": "policy.v.tinylfu.on_remove", "props": ["C14"], "bound": "unbounded"}},
    {"kind": "fn", "name": "evict", "impl": PIMPL,
     "requires": ["old(self).state.inv()"],
     "ensures": ["final(self).state.inv()", "final(self).state.window.view() == old(self).state.window.view()",
                 "evict_post(&old(self).state.main, &final(self).state.main, r.0@, r.1)",
                 # TinyLFU evicts from the main segments only: the window (<= window_target_cost) is drained by admissions
                 "r.1 >= cost_to_free || (forall|k: K| !final(self).state.main.tracked(k))"],
     "splices": [{"at_start": True, "insert": [
       "proof { lemma_total_nonneg(old(self).state.window.view()); lemma_total_nonneg(old(self).state.main.probationary.view()); lemma_total_nonneg(old(self).state.main.protected.view()); }"]}],
     "obligation": {"id": "policy.v.tinylfu.evict", "props": ["C14"], "bound": "unbounded"}},
    {"kind": "fn", "name": "clear", "impl": PIMPL,
     "requires": ["old(self).state.inv()"],
     "ensures": ["final(self).state.inv()", "forall|k: K| !final(self).state.tracked(k)"],
     "obligation": {"id": "policy.v.tinylfu.clear", "props": ["C14"], "bound": "unbounded"}},

    {"kind": "fn", "name": "on_admit", "impl": PIMPL,
     "requires": ["old(self).state.inv()", "old(self).state.sum() + cost <= u64::MAX"],
     "ensures": [
       "final(self).state.inv()",
       "!(r matches AdmissionDecision::Reject)",
       # T0 = old tracked set plus the admitted key; every key of T0 is afterwards either tracked (with its recorded cost, the admitted
       # key with the NEW cost) or was returned as a victim - nothing is dropped silently, nothing untracked is nominated
       "r matches AdmissionDecision::Admit ==> (forall|j: K| final(self).state.tracked(j) == (old(self).state.tracked(j) || j == *key))",
       "r matches AdmissionDecision::AdmitAndEvict(v) ==> (forall|j: K| final(self).state.tracked(j) == ((old(self).state.tracked(j) || j == *key) && !v@.contains(j)))",
       "r matches AdmissionDecision::AdmitAndEvict(v) ==> (forall|i: int| 0 <= i < v.len() ==> (old(self).state.tracked(#[trigger] v[i]) || v[i] == *key))",
       "r matches AdmissionDecision::AdmitAndEvict(v) ==> (forall|i: int, j: int| 0 <= i < j < v.len() ==> v[i] != v[j])",
       "forall|j: K| j != *key && final(self).state.tracked(j) ==> final(self).state.cost(j) == old(self).state.cost(j)",
       "final(self).state.tracked(*key) ==> final(self).state.cost(*key) == cost",
     ],
     "loops": [{"at": "while state.window.current_total_cost() > self.window_target_cost {", "clauses": [
       "invariant state.inv(),",
       "  forall|j: K| state.tracked(j) == ((old(self).state.tracked(j) || j == *key) && !rejected_candidates@.contains(j)),",
       "  forall|i: int| 0 <= i < rejected_candidates.len() ==> (old(self).state.tracked(#[trigger] rejected_candidates[i]) || rejected_candidates[i] == *key),",
       "  forall|i: int, j: int| 0 <= i < j < rejected_candidates.len() ==> rejected_candidates[i] != rejected_candidates[j],",
       "  forall|j: K| j != *key && state.tracked(j) ==> state.cost(j) == old(self).state.cost(j),",
       "  state.tracked(*key) ==> state.cost(*key) == cost,",
       "decreases state.window.view().len()",
     ]}],
     "splices": [
       {"at_start": True, "insert": [
         "proof {",
         "  let k = *key; let w = old(self).state.window.view();",
         "  lemma_without_keys(w, k); lemma_without_cost(w, k); lemma_without_nodup(w, k); lemma_without_total(w, k); lemma_total_nonneg(without(w, k));",
         "  lemma_cons((k, cost), without(w, k)); lemma_total_nonneg(w);",
         "  lemma_total_nonneg(old(self).state.main.probationary.view()); lemma_total_nonneg(old(self).state.main.protected.view());",
         "}"]},
       {"before": "let mut rejected_candidates = Vec::new();", "insert": [
         "proof {",
         "  assert(!old(self).state.main.tracked(*key));",
         "  assert forall|j: K| !(has_key(state.window.view(), j) && state.main.tracked(j)) by { if j != *key && has_key(state.window.view(), j) && state.main.tracked(j) { assert(has_key(old(self).state.window.view(), j)); } }",
         "  assert(state.inv());",
         "}"]},
       {"before": "let (candidate_key, candidate_cost) = match state.window.pop_back() {", "insert": ["let ghost pre = *state; let ghost vpre = rejected_candidates@;"]},
       {"before": "let main_victim_key_opt = state.main.peek_lru();", "insert": [
         "proof {",
         "  lemma_drop_last(pre.window.view());",
         "  lemma_total_nonneg(state.window.view()); lemma_total_nonneg(pre.main.probationary.view()); lemma_total_nonneg(pre.main.protected.view());",
         "  assert(!pre.main.tracked(candidate_key));",
         "  assert(!vpre.contains(candidate_key));",
         "}"]},
       {"after": "state.main.admit_internal(candidate_key, candidate_cost);", "insert": [
         "proof {",
         "  assert forall|j: K| !(has_key(state.window.view(), j) && state.main.tracked(j)) by { if has_key(state.window.view(), j) && state.main.tracked(j) { assert(has_key(pre.window.view(), j)); if j != candidate_key { assert(pre.main.tracked(j)); } } }",
         "  assert(state.inv());",
         "  assert(state.cost(candidate_key) == candidate_cost);",
         "  assert(pre.cost(candidate_key) == candidate_cost);",
         "  assert forall|j: K| state.tracked(j) == pre.tracked(j) by { if j != candidate_key { assert(has_key(state.window.view(), j) == has_key(pre.window.view(), j)); } }",
         "  assert forall|j: K| state.tracked(j) implies state.cost(j) == pre.cost(j) by { if j != candidate_key { assert(has_key(state.window.view(), j) == has_key(pre.window.view(), j)); } }",
         "  assert(rejected_candidates@ == vpre);",
         "  assert forall|j: K| state.tracked(j) == ((old(self).state.tracked(j) || j == *key) && !rejected_candidates@.contains(j)) by { assert(pre.tracked(j) == ((old(self).state.tracked(j) || j == *key) && !vpre.contains(j))); }",
         "  assert forall|j: K| j != *key && state.tracked(j) implies state.cost(j) == old(self).state.cost(j) by { assert(pre.tracked(j) ==> pre.cost(j) == old(self).state.cost(j)); }",
         "}"]},
       {"after": "rejected_candidates.push(candidate_key);", "insert": [
         "proof {",
         "  assert(state.inv());",
         "  assert forall|j: K| j != candidate_key implies (state.tracked(j) == pre.tracked(j) && (state.tracked(j) ==> state.cost(j) == pre.cost(j))) by { assert(has_key(state.window.view(), j) == has_key(pre.window.view(), j)); }",
         "  assert(!state.tracked(candidate_key));",
         "  assert forall|j: K| j != *key && state.tracked(j) implies state.cost(j) == old(self).state.cost(j) by { assert(pre.tracked(j) ==> pre.cost(j) == old(self).state.cost(j)); }",
         "  assert forall|j: K| state.tracked(j) == ((old(self).state.tracked(j) || j == *key) && !rejected_candidates@.contains(j)) by {",
         "    if j == candidate_key { assert(rejected_candidates@[rejected_candidates.len() - 1] == j); }",
         "    else {",
         "      if vpre.contains(j) { let i = choose|i: int| 0 <= i < vpre.len() && vpre[i] == j; assert(rejected_candidates@[i] == j); }",
         "      if rejected_candidates@.contains(j) { let i = choose|i: int| 0 <= i < rejected_candidates@.len() && rejected_candidates@[i] == j; assert(vpre[i] == j); }",
         "    }",
         "  }",
         "}"]},
     ],
     "obligation": {"id": "policy.v.tinylfu.on_admit", "props": ["C14"], "bound": "unbounded: every state, key, cost, any number of window evictions; sketch and admission filter arbitrary"}},
  ],
}
