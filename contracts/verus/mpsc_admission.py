# Verus unit: admission arithmetic of the bounded MPSC (channels/src/mpsc/bounded_v3/shared.rs).
#
# std atomics are taken verbatim; Verus gives `load`/`fetch_add` an ARBITRARY result, so every
# obligation below holds whatever other threads did to the counters between two statements of the
# function: these are all-schedule statements about one call.
IMPL = "impl<T> Shared<T>"
UNIT = {
  "name": "mpsc_admission",
  "source": "channels/src/mpsc/bounded_v3/shared.rs",
  "uses": ["use std::sync::atomic::{AtomicUsize, Ordering};"],
  "prelude": """
// "the credit of ticket t was re-verified against the consumer's counter AFTER the ticket was claimed"
pub uninterp spec fn credited(t: usize) -> bool;
""",
  "rewrites": [
    [r"CachePadded<(\w+)>", r"\1", "CachePadded is a Deref-transparent alignment wrapper"],
  ],
  "items": [
    {"kind": "struct", "name": "Shared", "keep": ["g_tail", "progress", "drained", "cap", "run_cap"],
     "add": ["pub _t: core::marker::PhantomData<T>,"]},

    # --- assumed (external_body) callees: token contracts -------------------------------------------
    {"kind": "fn", "name": "credit_ok", "impl": IMPL, "external_body": True,
     "ensures": ["r ==> credited(ticket)"]},
    {"kind": "fn", "name": "credit_ok_cold", "impl": IMPL, "external_body": True,
     "ensures": ["r ==> credited(ticket)"]},
    {"kind": "fn", "name": "write_slot", "impl": IMPL, "external_body": True,
     "requires": ["v.is_some() ==> credited(ticket)"]},

    # --- verified verbatim ----------------------------------------------------------------------------
    {"kind": "fn", "name": "window_open", "impl": IMPL,
     "obligation": {"id": "mpsc.v.window_open", "props": ["C03"], "bound": "unbounded; every value of the two loads; arithmetic safety only"}},
    {"kind": "fn", "name": "window_open_cold", "impl": IMPL,
     "obligation": {"id": "mpsc.v.window_open_cold", "props": ["C03"], "bound": "unbounded; every value of the two loads; arithmetic safety only"}},

    {"kind": "fn", "name": "try_send_now", "impl": IMPL,
     "attrs": ["#[verifier::exec_allows_no_decreases_clause]"],
     "ensures": ["r matches Err(x) ==> x == v"],
     "obligation": {"id": "mpsc.v.try_send_now", "props": ["C01", "C03"],
                    "bound": "unbounded; every result of window_open/fetch_add/credit_ok in every iteration: a value is written only into a ticket whose credit was re-verified after the claim; Err hands back the same value"}},
    {"kind": "fn", "name": "try_send_now_cold", "impl": IMPL,
     "attrs": ["#[verifier::exec_allows_no_decreases_clause]"],
     "ensures": ["r matches Err(x) ==> x == v"],
     "obligation": {"id": "mpsc.v.try_send_now_cold", "props": ["C01", "C03"],
                    "bound": "unbounded; as try_send_now, against the split `drained` counter"}},

    {"kind": "fn", "name": "claim_run", "impl": IMPL,
     "ensures": ["r.1 <= r.2", "r.2 <= remaining", "r.2 == 0 ==> (r.0 == 0 && r.1 == 0)", "self.cap == 0 ==> r.2 == 0"],
     "splices": [
       {"after": "let p2 = self.progress.load(Ordering::Acquire);",
        "insert": ["assume(p2 <= usize::MAX - self.cap); // ASSUMPTION: the progress counter stays 2^64 - cap away from wrapping (the source adds unchecked)"]},
       {"before": "(t, valid, m)",
        "insert": ["assert(valid <= m && m <= remaining && m <= run_cap && m <= slack);",
                   "assert(valid > 0 ==> t + valid <= p2 + self.cap); // every ticket that will carry a value lies inside the window of a progress value read AFTER the claim"]},
     ],
     "obligation": {"id": "mpsc.v.claim_run", "props": ["C03"],
                    "bound": "unbounded; every value of run_cap, g_tail, progress (twice) and of fetch_add's result"}},
    {"kind": "fn", "name": "claim_run_cold", "impl": IMPL,
     "ensures": ["r.1 <= r.2", "r.2 <= remaining", "r.2 == 0 ==> (r.0 == 0 && r.1 == 0)", "self.cap == 0 ==> r.2 == 0"],
     "splices": [
       {"after": "let d2 = self.drained.load(Ordering::Acquire);",
        "insert": ["assume(d2 <= usize::MAX - self.cap); // ASSUMPTION: as in claim_run"]},
       {"before": "(t, valid, m)",
        "insert": ["assert(valid <= m && m <= remaining && m <= run_cap && m <= slack);",
                   "assert(valid > 0 ==> t + valid <= d2 + self.cap);"]},
     ],
     "obligation": {"id": "mpsc.v.claim_run_cold", "props": ["C03"],
                    "bound": "unbounded; every value of run_cap, g_tail, drained (twice) and of fetch_add's result"}},

    {"kind": "fn", "name": "capacity", "impl": IMPL, "ensures": ["r == self.cap"],
     "obligation": {"id": "mpsc.v.capacity", "props": ["C03"], "bound": "unbounded"}},
    {"kind": "fn", "name": "len", "impl": IMPL, "ensures": ["r <= self.cap"],
     "obligation": {"id": "mpsc.v.len", "props": ["C03"], "bound": "unbounded; every value of the two loads (len() never exceeds capacity() under any interference)"}},
  ],
}
