# Verus unit: Fifo (cache/src/policy/fifo.rs) verbatim against the ASSUMED LruList contract.
import os
_here = os.path.dirname(os.path.abspath(__file__))
exec(open(os.path.join(_here, "lib", "policy_common.py")).read())
IMPL = "impl<K, V> CachePolicy<K, V> for Fifo<K>"
OLD = "old(self).list.view()"
NEW = "final(self).list.view()"
UNIT = {
  "name": "policy_fifo",
  "source": "cache/src/policy/fifo.rs",
  "uses": [],
  "prelude": policy_prelude(os.path.join(_here, "lib")) + """
pub open spec fn keys_of(s: Seq<E>) -> Seq<K> { s.map(|i: int, e: E| e.0) }
""",
  "rewrites": POLICY_REWRITES,
  "items": [
    {"kind": "enum", "name": "AdmissionDecision", "source": "cache/src/policy/mod.rs"},
    {"kind": "struct", "name": "Fifo", "keep": ["list"]},
    {"kind": "fn", "name": "on_access", "impl": IMPL, "impl_as": "impl Fifo",
     "requires": ["old(self).list.wf()"],
     "ensures": ["final(self).list.wf()", "%s == %s" % (NEW, OLD)],
     "obligation": {"id": "policy.v.fifo.on_access", "props": ["C14"], "bound": "unbounded: FIFO ignores accesses (insertion order is kept)"}},
    {"kind": "fn", "name": "on_admit", "impl": IMPL,
     "requires": ["old(self).list.wf()", "total(without(%s, *key)) + cost <= u64::MAX" % OLD],
     "ensures": [
       "final(self).list.wf()",
       "r matches AdmissionDecision::Admit",
       # insertion order: a new key goes in front of (is younger than) everything else; a re-admitted key keeps its place
       "!has_key(%s, *key) ==> %s == seq![(*key, cost)] + %s" % (OLD, NEW, OLD),
       "has_key(%s, *key) ==> keys_of(%s) == keys_of(%s)" % (OLD, NEW, OLD),
       # S-POL: tracked exactly once ...
       "has_key(%s, *key)" % NEW,
       frame_others(OLD, NEW, "*key"),
       # ... and with the NEW cost ("re-admitting a key updates its cost")
       "cost_of(%s, *key) == cost" % NEW,
     ],
     "splices": [{"before_tail": True, "insert": [
       "proof {",
       "  let o = old(self).list.view(); let k = *key;",
       "  lemma_without_keys(o, k); lemma_without_cost(o, k); lemma_cons((k, cost), without(o, k));",
       "}"]}],
     "obligation": {"id": "policy.v.fifo.on_admit", "props": ["C14"], "bound": "unbounded: every list, key, cost (sum of costs <= u64::MAX)"}},
    {"kind": "fn", "name": "on_remove", "impl": IMPL,
     "requires": ["old(self).list.wf()"],
     "ensures": [
       "final(self).list.wf()",
       "%s == without(%s, *key)" % (NEW, OLD),
       "!has_key(%s, *key)" % NEW,
       frame_others(OLD, NEW, "*key"),
     ],
     "splices": [{"at_end": True, "insert": [
       "proof { let o = old(self).list.view(); lemma_without_keys(o, *key); lemma_without_cost(o, *key); }"]}],
     "obligation": {"id": "policy.v.fifo.on_remove", "props": ["C14"], "bound": "unbounded"}},
    {"kind": "fn", "name": "evict", "impl": IMPL,
     "requires": ["old(self).list.wf()"],
     "ensures": [
       "final(self).list.wf()",
       "r.0.len() <= %s.len()" % OLD,
       # victims are exactly the oldest entries, oldest first
       "%s == %s.subrange(0, %s.len() - r.0.len())" % (NEW, OLD, OLD),
       "forall|j: int| 0 <= j < r.0.len() ==> r.0[j] == %s[%s.len() - 1 - j].0" % (OLD, OLD),
       "r.1 as int == total(%s) - total(%s)" % (OLD, NEW),
       "r.1 >= cost_to_free || %s.len() == 0" % NEW,
     ],
     "loops": [{"at": "while cost_to_free > 0 {", "clauses": [
       "invariant list.wf(),",
       "  victims.len() <= %s.len()," % OLD,
       "  list.view() == %s.subrange(0, %s.len() - victims.len())," % (OLD, OLD),
       "  forall|j: int| 0 <= j < victims.len() ==> victims[j] == %s[%s.len() - 1 - j].0," % (OLD, OLD),
       "  total_cost_freed as int == total(%s) - total(list.view())," % OLD,
       "  total(%s) <= u64::MAX," % OLD,
       "  cost_to_free as int == (if total_cost_freed >= ctf0 { 0 } else { ctf0 - total_cost_freed }),",
       "ensures list.wf(),",
       "  victims.len() <= %s.len()," % OLD,
       "  list.view() == %s.subrange(0, %s.len() - victims.len())," % (OLD, OLD),
       "  forall|j: int| 0 <= j < victims.len() ==> victims[j] == %s[%s.len() - 1 - j].0," % (OLD, OLD),
       "  total_cost_freed as int == total(%s) - total(list.view())," % OLD,
       "  total_cost_freed >= ctf0 || list.view().len() == 0,",
       "decreases list.view().len()",
     ]}],
     "splices": [{"after": "if let Some((key, cost)) = list.pop_back() {", "insert": ["proof { lemma_total_nonneg(list.view()); }"]},
                 {"before": "let mut victims = Vec::new();", "insert": ["let ghost ctf0 = cost_to_free;"]}],
     "obligation": {"id": "policy.v.fifo.evict", "props": ["C14"], "bound": "unbounded: every list, every cost_to_free, any number of iterations"}},
    {"kind": "fn", "name": "clear", "impl": IMPL,
     "requires": ["old(self).list.wf()"],
     "ensures": ["final(self).list.wf()", "%s.len() == 0" % NEW],
     "obligation": {"id": "policy.v.fifo.clear", "props": ["C14"], "bound": "unbounded"}},
  ],
}
