# Verus unit: ArcState / ArcPolicy (cache/src/policy/arc.rs) verbatim against the ASSUMED LruList contract.
import os
_here = os.path.dirname(os.path.abspath(__file__))
exec(open(os.path.join(_here, "lib", "policy_common.py")).read())
SIMPL = "impl<K: Eq + Hash + Clone> ArcState<K>"
PIMPL = "impl<K, V> CachePolicy<K, V> for ArcPolicy<K>"

PRELUDE2 = """
// ---- S-POL view of the ARC state: T1 and T2 hold the tracked (resident) keys, B1/B2 are ghosts ----------
impl ArcState {
  pub open spec fn bound(&self) -> int { total(self.t1.view()) + total(self.t2.view()) + total(self.b1.view()) + total(self.b2.view()) }
  pub open spec fn inv(&self) -> bool {
    self.t1.wf() && self.t2.wf() && self.b1.wf() && self.b2.wf()
    && (forall|k: K| !(has_key(self.t1.view(), k) && has_key(self.t2.view(), k)))
    && self.bound() <= u64::MAX
  }
  pub open spec fn tracked(&self, k: K) -> bool { has_key(self.t1.view(), k) || has_key(self.t2.view(), k) }
  pub open spec fn cost(&self, k: K) -> u64 { if has_key(self.t1.view(), k) { cost_of(self.t1.view(), k) } else { cost_of(self.t2.view(), k) } }
  pub open spec fn sum(&self) -> int { total(self.t1.view()) + total(self.t2.view()) }
  pub open spec fn within(&self, o: &ArcState) -> bool { forall|k: K| self.tracked(k) ==> o.tracked(k) && self.cost(k) == o.cost(k) }
  pub open spec fn same_tracking(&self, o: &ArcState) -> bool { forall|k: K| self.tracked(k) == o.tracked(k) && (self.tracked(k) ==> self.cost(k) == o.cost(k)) }
  pub open spec fn nothing_tracked(&self) -> bool { self.t1.view().len() == 0 && self.t2.view().len() == 0 }
}
pub open spec fn evict_post(o: &ArcState, n: &ArcState, v: Seq<K>, freed: u64) -> bool {
  n.inv() && n.within(o)
  && (forall|i: int, j: int| 0 <= i < j < v.len() ==> v[i] != v[j])
  && (forall|i: int| 0 <= i < v.len() ==> o.tracked(#[trigger] v[i]) && !n.tracked(v[i]))
  && (forall|k: K| o.tracked(k) && !n.tracked(k) ==> exists|i: int| 0 <= i < v.len() && #[trigger] v[i] == k)
  && freed as int == o.sum() - n.sum()
}
// stand-ins for what the extraction cannot take (each is listed as a rewrite): pure computations replaced by
// an over-approximation of their result
#[verifier::external_body]
pub fn havoc_bool() -> bool { unimplemented!() }
#[verifier::external_body]
pub fn ratio_round(a: u64, b: u64) -> (r: u64) requires b > 0 ensures r <= a { unimplemented!() }
"""

REWRITES = POLICY_REWRITES + [
  [r"let tail_key = state\.t1\.tail\.map\(\|idx\| state\.t1\.nodes\[idx\]\.key\.clone\(\)\);", "let tail_key = ();",
   "pure read of LruList's private fields through a closure (outside Verus' subset): dropped; its only consumer is the next line"],
  [r"let key_in_b2 = tail_key\.map_or\(false, \|k\| state\.b2\.contains\(&k\)\);", "let key_in_b2 = havoc_bool();",
   "pure, side-effect free computation of a bool replaced by an ARBITRARY bool: every value it could produce is covered"],
  [r"\((\w+) as f64 / (\w+) as f64\)\.round\(\) as u64", r"ratio_round(\1, \2)",
   "float ratio (outside Verus' subset) replaced by an arbitrary u64 <= numerator (round(a/b) <= a for b >= 1): it only steers the target size p"],
]

REPLACE_ENS = [
  "final(self).inv()", "final(self).p == old(self).p",
  "r.is_none() ==> final(self).t1.view() == old(self).t1.view() && final(self).t2.view() == old(self).t2.view() && final(self).b1.view() == old(self).b1.view() && final(self).b2.view() == old(self).b2.view()",
  # S-POL 'every resident key stays evictable': no victim only if nothing is tracked
  "r.is_none() ==> old(self).nothing_tracked()",
  "r matches Some(kc) ==> old(self).tracked(kc.0) && old(self).cost(kc.0) == kc.1 && !final(self).tracked(kc.0) && final(self).sum() == old(self).sum() - kc.1 && final(self).bound() <= old(self).bound()",
  "r matches Some(kc) ==> final(self).t1.view().len() + final(self).t2.view().len() < old(self).t1.view().len() + old(self).t2.view().len()",
  "r matches Some(kc) ==> (forall|j: K| j != kc.0 ==> final(self).tracked(j) == old(self).tracked(j) && final(self).cost(j) == old(self).cost(j))",
]


def replace_splices(t, b, nth, of):
  sel = {"nth": nth, "of": of} if of > 1 else {}
  return [
    dict({"before": "self.%s.push_front(key.clone(), cost);" % b, "insert": [
      "proof {",
      "  let o = old(self);",
      "  lemma_drop_last(o.%s.view()); lemma_total_nonneg(o.%s.view().drop_last());" % (t, t),
      "  lemma_without_total(o.%s.view(), key); lemma_total_nonneg(without(o.%s.view(), key));" % (b, b),
      "  lemma_total_nonneg(o.t1.view()); lemma_total_nonneg(o.t2.view()); lemma_total_nonneg(o.b1.view()); lemma_total_nonneg(o.b2.view());",
      "}"]}, **sel),
    dict({"after": "self.%s.push_front(key.clone(), cost);" % b, "insert": [
      "proof { lemma_cons((key, cost), without(old(self).%s.view(), key)); }" % b,
      "let ghost gm = self.%s.view();" % b]}, **sel),
    dict({"after": "self.%s.pop_back();" % b, "insert": [
      "proof { if gm.len() > 0 { lemma_drop_last(gm); } }"]}, **sel),
  ]

UNIT = {
  "name": "policy_arc",
  "source": "cache/src/policy/arc.rs",
  "uses": [],
  "prelude": policy_prelude(os.path.join(_here, "lib")) + PRELUDE2,
  "rewrites": REWRITES,
  "items": [
    {"kind": "enum", "name": "AdmissionDecision", "source": "cache/src/policy/mod.rs"},
    {"kind": "struct", "name": "ArcState", "keep": ["p", "t1", "t2", "b1", "b2"]},
    {"kind": "struct", "name": "ArcPolicy", "keep": ["state", "capacity"]},
    {"kind": "fn", "name": "replace", "impl": SIMPL, "impl_as": "impl ArcState",
     "requires": ["old(self).inv()"],
     "ensures": REPLACE_ENS,
     "splices": replace_splices("t1", "b1", 0, 2) + replace_splices("t2", "b2", 0, 1) + replace_splices("t1", "b1", 1, 2),
     "obligation": {"id": "policy.v.arc.replace", "props": ["C14"], "bound": "unbounded: every state, capacity, key_in_b2"}},

    {"kind": "fn", "name": "on_access", "impl": PIMPL, "impl_as": "impl ArcPolicy",
     "requires": ["old(self).state.inv()", "old(self).state.bound() + cost <= u64::MAX"],
     "ensures": ["final(self).state.inv()", "final(self).capacity == old(self).capacity", "final(self).state.p == old(self).state.p",
                 "forall|j: K| final(self).state.tracked(j) == old(self).state.tracked(j)",
                 "forall|j: K| j != *key && old(self).state.tracked(j) ==> final(self).state.cost(j) == old(self).state.cost(j)"],
     "splices": [{"at_start": True, "insert": [
       "proof {",
       "  let k = *key; let o = old(self).state.t1.view(); let q = old(self).state.t2.view();",
       "  lemma_without_keys(o, k); lemma_without_cost(o, k); lemma_without_nodup(o, k); lemma_without_total(o, k); lemma_total_nonneg(without(o, k));",
       "  lemma_without_keys(q, k); lemma_without_cost(q, k); lemma_without_nodup(q, k); lemma_without_total(q, k); lemma_total_nonneg(without(q, k));",
       "  lemma_cons((k, cost), without(q, k));",
       "  lemma_total_nonneg(o); lemma_total_nonneg(q); lemma_total_nonneg(old(self).state.b1.view()); lemma_total_nonneg(old(self).state.b2.view());",
       "}"]},
       {"before": "return;", "insert": [
       "proof {",
       "  let k = *key; let o = old(self).state.t1.view(); let q = old(self).state.t2.view();",
       "  assert(has_key(o, k)); assert(!has_key(q, k));",
       "  lemma_without_absent(q, k);",
       "  lemma_cons((k, cost), q);",
       "  assert forall|j: K| !(has_key(state.t1.view(), j) && has_key(state.t2.view(), j)) by {",
       "    if j != k && has_key(state.t1.view(), j) && has_key(state.t2.view(), j) { assert(has_key(o, j)); assert(has_key(q, j)); }",
       "  }",
       "}"]}],
     "obligation": {"id": "policy.v.arc.on_access", "props": ["C14"], "bound": "unbounded: an access (promotion T1->T2 or refresh) never changes what is tracked"}},
    {"kind": "fn", "name": "on_remove", "impl": PIMPL,
     "requires": ["old(self).state.inv()"],
     "ensures": ["final(self).state.inv()", "!final(self).state.tracked(*key)",
                 "forall|j: K| j != *key ==> final(self).state.tracked(j) == old(self).state.tracked(j) && final(self).state.cost(j) == old(self).state.cost(j)"],
     "splices": [{"at_start": True, "insert": [
       "proof {",
       "  let k = *key; let st = old(self).state;",
       "  lemma_without_keys(st.t1.view(), k); lemma_without_cost(st.t1.view(), k); lemma_without_nodup(st.t1.view(), k); lemma_without_total(st.t1.view(), k);",
       "  lemma_without_keys(st.t2.view(), k); lemma_without_cost(st.t2.view(), k); lemma_without_nodup(st.t2.view(), k); lemma_without_total(st.t2.view(), k);",
       "  lemma_without_total(st.b1.view(), k); lemma_without_total(st.b2.view(), k);",
       "}"]}],
     "obligation": {"id": "policy.v.arc.on_remove", "props": ["C14"], "bound": "unbounded"}},
    {"kind": "fn", "name": "clear", "impl": PIMPL,
     "requires": ["old(self).state.inv()"],
     "ensures": ["final(self).state.inv()", "final(self).state.nothing_tracked()"],
     "obligation": {"id": "policy.v.arc.clear", "props": ["C14"], "bound": "unbounded"}},

    {"kind": "fn", "name": "evict", "impl": PIMPL,
     "requires": ["old(self).state.inv()"],
     "ensures": ["evict_post(&old(self).state, &final(self).state, r.0@, r.1)",
                 # frees what was asked unless nothing tracked is left
                 "r.1 >= cost_to_free || final(self).state.nothing_tracked()"],
     "loops": [{"at": "while total_cost_freed < cost_to_free {", "clauses": [
       "invariant state.inv(), state.within(&old(self).state), self.capacity == old(self).capacity,",
       "  forall|i: int, j: int| 0 <= i < j < victims.len() ==> victims[i] != victims[j],",
       "  forall|i: int| 0 <= i < victims.len() ==> old(self).state.tracked(#[trigger] victims[i]) && !state.tracked(victims[i]),",
       "  forall|k: K| old(self).state.tracked(k) && !state.tracked(k) ==> exists|i: int| 0 <= i < victims.len() && #[trigger] victims[i] == k,",
       "  total_cost_freed as int == old(self).state.sum() - state.sum(),",
       "  old(self).state.sum() <= u64::MAX,",
       "ensures total_cost_freed >= cost_to_free || state.nothing_tracked(),",
       "decreases state.t1.view().len() + state.t2.view().len()",
     ]}],
     "splices": [
       {"before": "let mut victims = Vec::new();", "insert": ["proof { lemma_total_nonneg(old(self).state.b1.view()); lemma_total_nonneg(old(self).state.b2.view()); }"]},
       {"before": "let tail_key = state.t1.tail.map(|idx| state.t1.nodes[idx].key.clone());", "insert": ["let ghost pre = *state; let ghost vpre = victims@;"]},
       {"after": "if let Some((key, cost)) = state.replace(self.capacity, key_in_b2) {", "insert": [
         "proof { lemma_total_nonneg(state.t1.view()); lemma_total_nonneg(state.t2.view()); lemma_total_nonneg(pre.b1.view()); lemma_total_nonneg(pre.b2.view()); }"]},
       {"after": "victims.push(key);", "insert": [
         "proof {",
         "  assert forall|k: K| old(self).state.tracked(k) && !state.tracked(k) implies exists|i: int| 0 <= i < victims.len() && #[trigger] victims[i] == k by {",
         "    if k == key { assert(victims[victims.len() - 1] == key); }",
         "    else { assert(!pre.tracked(k)); let i = choose|i: int| 0 <= i < vpre.len() && #[trigger] vpre[i] == k; assert(victims[i] == k); }",
         "  }",
         "}"]},
     ],
     "obligation": {"id": "policy.v.arc.evict", "props": ["C14"], "bound": "unbounded: every state, every cost_to_free, any number of iterations; key_in_b2 arbitrary"}},

    {"kind": "fn", "name": "on_admit", "impl": PIMPL,
     "requires": ["old(self).state.inv()", "old(self).state.bound() + cost <= u64::MAX",
                  "old(self).state.p <= old(self).capacity", "old(self).capacity + old(self).state.bound() + 1 <= u64::MAX"],
     "ensures": ["final(self).state.inv()", "final(self).capacity == old(self).capacity", "final(self).state.p <= final(self).capacity",
                 # the key is tracked exactly once with the NEW cost
                 "final(self).state.tracked(*key) && final(self).state.cost(*key) == cost",
                 "!(r matches AdmissionDecision::Reject)",
                 # an admitted key stops being tracked only by being nominated
                 "r matches AdmissionDecision::Admit ==> (forall|j: K| j != *key ==> final(self).state.tracked(j) == old(self).state.tracked(j) && final(self).state.cost(j) == old(self).state.cost(j))",
                 "r matches AdmissionDecision::AdmitAndEvict(v) ==> v.len() == 1",
                 "r matches AdmissionDecision::AdmitAndEvict(v) ==> v[0] != *key && old(self).state.tracked(v[0]) && !final(self).state.tracked(v[0])",
                 "r matches AdmissionDecision::AdmitAndEvict(v) ==> (forall|j: K| j != *key && j != v[0] ==> final(self).state.tracked(j) == old(self).state.tracked(j) && final(self).state.cost(j) == old(self).state.cost(j))"],
     "splices": [
       {"at_start": True, "insert": [
         "proof {",
         "  let k = *key; let st = old(self).state;",
         "  lemma_without_keys(st.t1.view(), k); lemma_without_cost(st.t1.view(), k); lemma_without_nodup(st.t1.view(), k); lemma_without_total(st.t1.view(), k); lemma_total_nonneg(without(st.t1.view(), k));",
         "  lemma_without_keys(st.t2.view(), k); lemma_without_cost(st.t2.view(), k); lemma_without_nodup(st.t2.view(), k); lemma_without_total(st.t2.view(), k); lemma_total_nonneg(without(st.t2.view(), k));",
         "  lemma_without_total(st.b1.view(), k); lemma_total_nonneg(without(st.b1.view(), k));",
         "  lemma_without_total(st.b2.view(), k); lemma_total_nonneg(without(st.b2.view(), k));",
         "  lemma_cons((k, cost), without(st.t2.view(), k));",
         "  lemma_total_nonneg(st.t1.view()); lemma_total_nonneg(st.t2.view()); lemma_total_nonneg(st.b1.view()); lemma_total_nonneg(st.b2.view());",
         "}"]},
       {"before": "return AdmissionDecision::Admit;", "nth": 0, "of": 2, "insert": [
         "proof {",
         "  let k = *key; let o = old(self).state.t1.view(); let q = old(self).state.t2.view();",
         "  assert(has_key(o, k)); assert(!has_key(q, k));",
         "  lemma_without_absent(q, k); lemma_cons((k, cost), q);",
         "  assert forall|j: K| !(has_key(state.t1.view(), j) && has_key(state.t2.view(), j)) by {",
         "    if j != k && has_key(state.t1.view(), j) && has_key(state.t2.view(), j) { assert(has_key(o, j)); assert(has_key(q, j)); }",
         "  }",
         "}"]},
       {"before": "let mut key_in_b2 = false;", "insert": [
         "proof { assert(state.t1.view() == old(self).state.t1.view() && state.t2.view() == old(self).state.t2.view()); assert(!old(self).state.tracked(*key)); }"]},
       {"before": "let t2_cost = state.t2.current_total_cost();", "insert": [
         "proof { assert(state.inv()); assert(state.t1.view() == old(self).state.t1.view() && state.t2.view() == old(self).state.t2.view()); assert(state.bound() <= old(self).state.bound()); }",
         "let ghost mid = *state;"]},
       {"before": "state.t1.push_front(key.clone(), cost);", "insert": [
         "proof {",
         "  let k = *key;",
         "  assert(!state.tracked(k));",
         "  lemma_without_absent(state.t1.view(), k); lemma_cons((k, cost), state.t1.view());",
         "  lemma_total_nonneg(state.t1.view()); lemma_total_nonneg(state.t2.view()); lemma_total_nonneg(state.b1.view()); lemma_total_nonneg(state.b2.view());",
         "}",
         "let ghost pre_push = *state;"]},
       {"after": "state.t1.push_front(key.clone(), cost);", "insert": [
         "proof {",
         "  let k = *key;",
         "  assert forall|j: K| !(has_key(state.t1.view(), j) && has_key(state.t2.view(), j)) by {",
         "    if j != k && has_key(state.t1.view(), j) && has_key(state.t2.view(), j) { assert(has_key(pre_push.t1.view(), j)); }",
         "  }",
         "  assert(state.t1.wf() && state.t2.wf() && state.b1.wf() && state.b2.wf());",
         "  assert(pre_push.bound() <= mid.bound());",
         "  assert(state.bound() == pre_push.bound() + cost);",
         "  assert(state.bound() <= u64::MAX);",
         "  assert(state.inv());",
         "}"]},
       {"before": "match victim {", "insert": [
         "proof {",
         "  if let Some((vk, vc)) = victim { assert(mid.tracked(vk)); assert(old(self).state.tracked(vk)); assert(vk != *key); assert(!pre_push.tracked(vk)); assert(!state.tracked(vk));",
         "    assert forall|j: K| j != *key && j != vk implies state.tracked(j) == old(self).state.tracked(j) && state.cost(j) == old(self).state.cost(j) by {",
         "      assert(pre_push.tracked(j) == mid.tracked(j) && pre_push.cost(j) == mid.cost(j));",
         "      assert(mid.tracked(j) == old(self).state.tracked(j) && mid.cost(j) == old(self).state.cost(j));",
         "      assert(state.tracked(j) == pre_push.tracked(j));",
         "      assert(state.cost(j) == pre_push.cost(j));",
         "    }",
         "  }",
         "}"]},
     ],
     "obligation": {"id": "policy.v.arc.on_admit", "props": ["C14"], "bound": "unbounded: every state, key, cost; the float ratio and key_in_b2 are arbitrary (sum of costs + capacity <= u64::MAX)"}},
  ],
}
