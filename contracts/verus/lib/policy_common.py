# Shared pieces of the C14 policy units (exec'd by each unit file).
import os
_LIB = os.path.dirname(os.path.abspath(__file__)) if "__file__" in globals() else None

def policy_prelude(libdir):
  return open(os.path.join(libdir, "lrulist_contract.rs")).read()

POLICY_REWRITES = [
  [r"Mutex<((?:LruList|ArcState|SlruState)<K>)>", r"\1", "lock elision: the parking_lot::Mutex only provides exclusive access to the policy state; the extracted method takes &mut self instead"],
  [r"self\.(\w+)\.lock\(\)", r"(&mut self.\1)", "lock elision (see above): `self.f.lock()` -> `&mut self.f`"],
  [r"\(&self\b", r"(&mut self", "lock elision (see above): methods that lock take `&mut self` in the extracted text"],
  [r"<K: Eq \+ Hash \+ Clone>", r"", "K := u64 (type alias in the prelude): the code is parametric in K: Eq + Hash + Clone"],
  [r"\b(LruList|LruPolicy|Fifo|ArcState|ArcPolicy|SlruState|SlruPolicy)<K>", r"\1", "K := u64 (see above)"],
]

# S-POL clauses shared by on_admit of the always-admitting list policies, over one LruList view
def frame_others(old, new, key):
  return ("forall|j: K| j != %s ==> has_key(%s, j) == has_key(%s, j) && cost_of(%s, j) == cost_of(%s, j)" % (key, new, old, new, old))
