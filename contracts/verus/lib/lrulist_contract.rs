// ---------------------------------------------------------------------------------------------------
// ASSUMED contract of cache/src/policy/lru_list.rs::LruList (the callee of LRU, FIFO, SLRU, ARC and of
// TinyLFU's main segment).  LruList itself is NOT verified by this unit: its body goes through
// generational_arena::Arena and std HashMap (IndexMut assignments are outside Verus' subset, hashbrown is
// outside CBMC's reach).  View: the (key, cost) entries from head (most recently used) to tail (least
// recently used); keys are unique.
// ---------------------------------------------------------------------------------------------------
pub type K = u64;   // the policy code is parametric in K: Eq + Hash + Clone and never inspects keys otherwise
pub type E = (K, u64);

pub open spec fn has_key(s: Seq<E>, k: K) -> bool { exists|i: int| 0 <= i < s.len() && (#[trigger] s[i]).0 == k }
pub open spec fn nodup(s: Seq<E>) -> bool { forall|i: int, j: int| 0 <= i < j < s.len() ==> (#[trigger] s[i]).0 != (#[trigger] s[j]).0 }
pub open spec fn without(s: Seq<E>, k: K) -> Seq<E> decreases s.len() {
  if s.len() == 0 { s } else if s.last().0 == k { without(s.drop_last(), k) } else { without(s.drop_last(), k).push(s.last()) }
}
pub open spec fn total(s: Seq<E>) -> int decreases s.len() {
  if s.len() == 0 { 0 } else { total(s.drop_last()) + s.last().1 as int }
}
pub open spec fn cost_of(s: Seq<E>, k: K) -> u64 decreases s.len() {
  if s.len() == 0 { 0 } else if s.last().0 == k { s.last().1 } else { cost_of(s.drop_last(), k) }
}

#[verifier::external_body]
pub struct LruList { _p: core::marker::PhantomData<u64> }

impl LruList {
  pub uninterp spec fn view(&self) -> Seq<E>;
  pub open spec fn wf(&self) -> bool { nodup(self.view()) && total(self.view()) <= u64::MAX }

  #[verifier::external_body]
  pub fn new() -> (r: Self)
    ensures r.view().len() == 0, r.wf(),
  { unimplemented!() }

  #[verifier::external_body]
  pub fn contains(&self, key: &K) -> (r: bool)
    requires self.wf(),
    ensures r == has_key(self.view(), *key),
  { unimplemented!() }

  #[verifier::external_body]
  pub fn current_total_cost(&self) -> (r: u64)
    requires self.wf(),
    ensures r as int == total(self.view()),
  { unimplemented!() }

  #[verifier::external_body]
  pub fn push_front(&mut self, key: K, cost: u64)
    requires old(self).wf(), total(without(old(self).view(), key)) + cost <= u64::MAX,
    ensures final(self).wf(), final(self).view() == seq![(key, cost)] + without(old(self).view(), key),
  { unimplemented!() }

  #[verifier::external_body]
  pub fn move_to_front(&mut self, key: &K)
    requires old(self).wf(),
    ensures final(self).wf(),
      !has_key(old(self).view(), *key) ==> final(self).view() == old(self).view(),
      has_key(old(self).view(), *key) ==> final(self).view() == seq![(*key, cost_of(old(self).view(), *key))] + without(old(self).view(), *key),
  { unimplemented!() }

  #[verifier::external_body]
  pub fn pop_back(&mut self) -> (r: Option<(K, u64)>)
    requires old(self).wf(),
    ensures final(self).wf(),
      old(self).view().len() == 0 ==> r.is_none() && final(self).view() == old(self).view(),
      old(self).view().len() > 0 ==> r == Some(old(self).view().last()) && final(self).view() == old(self).view().drop_last(),
  { unimplemented!() }

  #[verifier::external_body]
  pub fn remove(&mut self, key: &K) -> (r: Option<u64>)
    requires old(self).wf(),
    ensures final(self).wf(), final(self).view() == without(old(self).view(), *key),
      r.is_some() == has_key(old(self).view(), *key),
      r.is_some() ==> r.unwrap() == cost_of(old(self).view(), *key),
  { unimplemented!() }

  #[verifier::external_body]
  pub fn clear(&mut self)
    requires old(self).wf(),
    ensures final(self).wf(), final(self).view().len() == 0,
  { unimplemented!() }
}

// ---------------------------------------------------------------------------------------------------
// Lemmas about the view (proved, not assumed)
// ---------------------------------------------------------------------------------------------------
pub proof fn lemma_has_key_unfold(s: Seq<E>, k: K)
  ensures has_key(s, k) == (s.len() > 0 && (s.last().0 == k || has_key(s.drop_last(), k))),
{
  if s.len() > 0 {
    let d = s.drop_last();
    if has_key(s, k) {
      let i = choose|i: int| 0 <= i < s.len() && (#[trigger] s[i]).0 == k;
      if i < s.len() - 1 { assert(d[i].0 == k); }
    }
    if has_key(d, k) {
      let i = choose|i: int| 0 <= i < d.len() && (#[trigger] d[i]).0 == k;
      assert(s[i].0 == k);
    }
    if s.last().0 == k { assert(s[s.len() - 1].0 == k); }
  }
}

pub proof fn lemma_total_nonneg(s: Seq<E>)
  ensures total(s) >= 0,
  decreases s.len(),
{ if s.len() > 0 { lemma_total_nonneg(s.drop_last()); } }

pub proof fn lemma_nodup_drop_last(s: Seq<E>)
  requires nodup(s), s.len() > 0,
  ensures nodup(s.drop_last()), !has_key(s.drop_last(), s.last().0),
{
  let d = s.drop_last();
  assert forall|i: int, j: int| 0 <= i < j < d.len() implies (#[trigger] d[i]).0 != (#[trigger] d[j]).0 by {
    assert(d[i] == s[i] && d[j] == s[j]);
  }
  if has_key(d, s.last().0) {
    let i = choose|i: int| 0 <= i < d.len() && (#[trigger] d[i]).0 == s.last().0;
    assert(s[i] == d[i]);
    assert(s[i].0 != s[s.len() - 1].0);
  }
}

pub proof fn lemma_cost_of_index(s: Seq<E>, i: int)
  requires nodup(s), 0 <= i < s.len(),
  ensures cost_of(s, s[i].0) == s[i].1, has_key(s, s[i].0),
  decreases s.len(),
{
  if i < s.len() - 1 {
    lemma_nodup_drop_last(s);
    assert(s.drop_last()[i] == s[i]);
    lemma_cost_of_index(s.drop_last(), i);
    assert(s[i].0 != s[s.len() - 1].0);
  }
}

pub proof fn lemma_without_keys(s: Seq<E>, k: K)
  ensures
    !has_key(without(s, k), k),
    forall|j: K| j != k ==> has_key(without(s, k), j) == has_key(s, j),
    without(s, k).len() <= s.len(),
    !has_key(s, k) ==> without(s, k) == s,
  decreases s.len(),
{
  let w = without(s, k);
  if s.len() > 0 {
    let d = s.drop_last();
    let wd = without(d, k);
    lemma_without_keys(d, k);
    lemma_has_key_unfold(s, k);
    lemma_has_key_unfold(w, k);
    if s.last().0 != k {
      assert(w.drop_last() == wd);
      assert(w.last() == s.last());
    }
    assert forall|j: K| j != k implies has_key(w, j) == has_key(s, j) by {
      lemma_has_key_unfold(s, j);
      lemma_has_key_unfold(w, j);
    }
    if !has_key(s, k) {
      assert(wd == d);
      assert(w =~= s);
    }
  }
}

pub proof fn lemma_without_cost(s: Seq<E>, k: K)
  ensures forall|j: K| j != k ==> cost_of(without(s, k), j) == cost_of(s, j),
  decreases s.len(),
{
  let w = without(s, k);
  if s.len() > 0 {
    let d = s.drop_last();
    lemma_without_cost(d, k);
    if s.last().0 != k {
      assert(w.drop_last() == without(d, k));
      assert(w.last() == s.last());
    }
    assert forall|j: K| j != k implies cost_of(w, j) == cost_of(s, j) by {
      assert(cost_of(without(d, k), j) == cost_of(d, j));
    }
  }
}

pub proof fn lemma_without_nodup(s: Seq<E>, k: K)
  requires nodup(s),
  ensures nodup(without(s, k)),
  decreases s.len(),
{
  let w = without(s, k);
  if s.len() > 0 {
    let d = s.drop_last();
    let wd = without(d, k);
    lemma_nodup_drop_last(s);
    lemma_without_nodup(d, k);
    lemma_without_keys(d, k);
    if s.last().0 != k {
      assert(w.drop_last() == wd);
      assert(w.last() == s.last());
      assert forall|i: int, j: int| 0 <= i < j < w.len() implies (#[trigger] w[i]).0 != (#[trigger] w[j]).0 by {
        if j == w.len() - 1 {
          assert(wd[i] == w[i]);
          assert(has_key(wd, w[i].0));
        } else {
          assert(wd[i] == w[i] && wd[j] == w[j]);
        }
      }
    }
  }
}

pub proof fn lemma_without_total(s: Seq<E>, k: K)
  requires nodup(s),
  ensures total(without(s, k)) == total(s) - (if has_key(s, k) { cost_of(s, k) as int } else { 0 }),
  decreases s.len(),
{
  let w = without(s, k);
  if s.len() > 0 {
    let d = s.drop_last();
    let wd = without(d, k);
    lemma_nodup_drop_last(s);
    lemma_without_total(d, k);
    lemma_without_keys(d, k);
    lemma_has_key_unfold(s, k);
    if s.last().0 != k {
      assert(w.drop_last() == wd);
      assert(w.last() == s.last());
    } else {
      assert(wd == d);
    }
  }
}

pub proof fn lemma_cons(e: E, s: Seq<E>)
  ensures
    total(seq![e] + s) == e.1 as int + total(s),
    forall|j: K| has_key(seq![e] + s, j) == (j == e.0 || has_key(s, j)),
    forall|j: K| j != e.0 ==> cost_of(seq![e] + s, j) == cost_of(s, j),
    !has_key(s, e.0) ==> cost_of(seq![e] + s, e.0) == e.1,
    (nodup(s) && !has_key(s, e.0)) ==> nodup(seq![e] + s),
  decreases s.len(),
{
  let c = seq![e] + s;
  if s.len() == 0 {
    assert(c.drop_last() =~= Seq::<E>::empty());
    assert(c.last() == e);
    assert(total(c.drop_last()) == 0);
    assert forall|j: K| has_key(c, j) == (j == e.0 || has_key(s, j)) by {
      lemma_has_key_unfold(c, j);
      lemma_has_key_unfold(c.drop_last(), j);
    }
    assert forall|j: K| j != e.0 implies cost_of(c, j) == cost_of(s, j) by {
      assert(cost_of(c.drop_last(), j) == 0);
    }
  } else {
    let d = s.drop_last();
    lemma_cons(e, d);
    assert(c.drop_last() =~= seq![e] + d);
    assert(c.last() == s.last());
    assert forall|j: K| has_key(c, j) == (j == e.0 || has_key(s, j)) by {
      lemma_has_key_unfold(c, j);
      lemma_has_key_unfold(s, j);
    }
    lemma_has_key_unfold(s, e.0);
    assert forall|j: K| j != e.0 implies cost_of(c, j) == cost_of(s, j) by {
      assert(cost_of(seq![e] + d, j) == cost_of(d, j));
    }
    if nodup(s) && !has_key(s, e.0) {
      lemma_nodup_drop_last(s);
      assert forall|i: int, j: int| 0 <= i < j < c.len() implies (#[trigger] c[i]).0 != (#[trigger] c[j]).0 by {
        if i == 0 {
          assert(c[j] == s[j - 1]);
          assert(has_key(s, s[j - 1].0));
        } else {
          assert(c[i] == s[i - 1] && c[j] == s[j - 1]);
        }
      }
    }
  }
}

pub proof fn lemma_cost_absent(s: Seq<E>, k: K)
  ensures !has_key(s, k) ==> cost_of(s, k) == 0,
  decreases s.len(),
{
  if s.len() > 0 { lemma_has_key_unfold(s, k); lemma_cost_absent(s.drop_last(), k); }
}

pub proof fn lemma_drop_last(s: Seq<E>)
  requires nodup(s), s.len() > 0,
  ensures
    nodup(s.drop_last()),
    forall|j: K| has_key(s.drop_last(), j) == (has_key(s, j) && j != s.last().0),
    forall|j: K| j != s.last().0 ==> cost_of(s.drop_last(), j) == cost_of(s, j),
    cost_of(s, s.last().0) == s.last().1,
    has_key(s, s.last().0),
    total(s.drop_last()) == total(s) - s.last().1,
{
  lemma_nodup_drop_last(s);
  assert forall|j: K| has_key(s.drop_last(), j) == (has_key(s, j) && j != s.last().0) by {
    lemma_has_key_unfold(s, j);
  }
  lemma_has_key_unfold(s, s.last().0);
}

// a key that is absent is not affected by `without`
pub proof fn lemma_without_absent(s: Seq<E>, k: K)
  requires !has_key(s, k),
  ensures without(s, k) == s,
{ lemma_without_keys(s, k); }
