# Verus unit: NullPolicy (cache/src/policy/null.rs) verbatim. The policy of unbounded caches: it tracks nothing,
# so S-POL degenerates to "admits everything, never nominates a victim, reports a freed cost of exactly 0".
import os
_here = os.path.dirname(os.path.abspath(__file__))
exec(open(os.path.join(_here, "lib", "policy_common.py")).read())
IMPL = "impl<K, V> CachePolicy<K, V> for NullPolicy"
UNIT = {
  "name": "policy_null",
  "source": "cache/src/policy/null.rs",
  "uses": [],
  "prelude": "pub type K = u64;   // the policy code is parametric in K and never inspects keys\n",
  "rewrites": [],
  "items": [
    {"kind": "enum", "name": "AdmissionDecision", "source": "cache/src/policy/mod.rs"},
    {"kind": "unit_struct", "name": "NullPolicy"},
    {"kind": "fn", "name": "on_admit", "impl": IMPL, "impl_as": "impl NullPolicy",
     "requires": [],
     "ensures": ["r matches AdmissionDecision::Admit"],
     "obligation": {"id": "policy.v.null.on_admit", "props": ["C14"], "bound": "unbounded: every key and cost is admitted, no victim is ever attached to the decision"}},
    {"kind": "fn", "name": "evict", "impl": IMPL,
     "requires": [],
     "ensures": ["r.0.len() == 0", "r.1 == 0"],
     "obligation": {"id": "policy.v.null.evict", "props": ["C14"], "bound": "unbounded: every cost_to_free: no key is nominated (the policy tracks none) and the reported freed cost is exactly 0, the sum over no victims"}},
  ],
}
