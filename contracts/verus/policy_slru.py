# Verus unit: SlruState / SlruPolicy (cache/src/policy/slru.rs) verbatim against the ASSUMED LruList contract.
# SlruState is also the main segment of TinyLfuPolicy.
import os
_here = os.path.dirname(os.path.abspath(__file__))
exec(open(os.path.join(_here, "lib", "policy_common.py")).read())
SIMPL = "impl<K: Eq + Hash + Clone> SlruState<K>"
PIMPL = "impl<K, V> CachePolicy<K, V> for SlruPolicy<K>"

PRELUDE2 = """
// ---- S-POL view of the two-segment state -------------------------------------------------------------
impl SlruState {
  pub open spec fn inv(&self) -> bool {
    self.probationary.wf() && self.protected.wf()
    && (forall|k: K| !(has_key(self.probationary.view(), k) && has_key(self.protected.view(), k)))
    && total(self.probationary.view()) + total(self.protected.view()) <= u64::MAX
  }
  pub open spec fn tracked(&self, k: K) -> bool { has_key(self.probationary.view(), k) || has_key(self.protected.view(), k) }
  pub open spec fn cost(&self, k: K) -> u64 { if has_key(self.probationary.view(), k) { cost_of(self.probationary.view(), k) } else { cost_of(self.protected.view(), k) } }
  pub open spec fn sum(&self) -> int { total(self.probationary.view()) + total(self.protected.view()) }
  // everything tracked in `self` is tracked in `o` with the same cost
  pub open spec fn within(&self, o: &SlruState) -> bool { forall|k: K| self.tracked(k) ==> o.tracked(k) && self.cost(k) == o.cost(k) }
  pub open spec fn same_tracking(&self, o: &SlruState) -> bool { forall|k: K| self.tracked(k) == o.tracked(k) && (self.tracked(k) ==> self.cost(k) == o.cost(k)) }
}
// S-POL for evict: victims are distinct, were tracked, are no longer tracked, nothing else was dropped,
// and the reported cost is exactly the recorded cost of what was dropped
pub open spec fn evict_post(o: &SlruState, n: &SlruState, v: Seq<K>, freed: u64) -> bool {
  n.inv() && n.within(o)
  && (forall|i: int, j: int| 0 <= i < j < v.len() ==> v[i] != v[j])
  && (forall|i: int| 0 <= i < v.len() ==> o.tracked(#[trigger] v[i]) && !n.tracked(v[i]))
  && (forall|k: K| o.tracked(k) && !n.tracked(k) ==> exists|i: int| 0 <= i < v.len() && #[trigger] v[i] == k)
  && freed as int == o.sum() - n.sum()
}
"""

MAINT_INV = [
  "invariant self.inv(), self.same_tracking(&*old(self)), self.sum() == old(self).sum(),",
  "ensures self.inv(), self.same_tracking(&*old(self)), self.sum() == old(self).sum(), total(self.protected.view()) <= prot_capacity,",
  "decreases self.protected.view().len()",
]

MAINT_SPLICES = [
  {"before": "if let Some((key, cost)) = self.protected.pop_back() {", "insert": ["let ghost pre = *self;"]},
  {"after": "if let Some((key, cost)) = self.protected.pop_back() {", "insert": [
    "proof {",
    "  // the demoted key was in `protected` only (segments are disjoint), so the push clobbers nothing",
    "  lemma_drop_last(pre.protected.view());",
    "  lemma_without_absent(pre.probationary.view(), key);",
    "  lemma_total_nonneg(self.protected.view());",
    "}"]},
  {"after": "self.probationary.push_front(key, cost);", "insert": [
    "proof {",
    "  lemma_cons((key, cost), pre.probationary.view());",
    "  assert(self.probationary.wf());",
    "  assert(self.protected.wf());",
    "  assert(self.probationary.view() == seq![(key, cost)] + pre.probationary.view());",
    "  assert(self.protected.view() == pre.protected.view().drop_last());",
    "  assert(total(self.probationary.view()) + total(self.protected.view()) <= u64::MAX);",
    "  assert forall|k: K| !(has_key(self.probationary.view(), k) && has_key(self.protected.view(), k)) by {",
    "    if k != key && has_key(self.probationary.view(), k) && has_key(self.protected.view(), k) {",
    "      assert(has_key(pre.probationary.view(), k));",
    "      assert(has_key(pre.protected.view(), k));",
    "      assert(pre.inv());",
    "    }",
    "  }",
    "  assert(self.inv());",
    "  assert(self.same_tracking(&pre));",
    "}"]},
]

PUSH_PROOF = ['proof {', '  assert forall|k: K| old(self).tracked(k) && !self.tracked(k) implies exists|i: int| 0 <= i < victims.len() && #[trigger] victims[i] == k by {', '    if k == key { assert(victims[victims.len() - 1] == key); }', '    else { assert(!pre.tracked(k)); let i = choose|i: int| 0 <= i < vpre.len() && #[trigger] vpre[i] == k; assert(victims[i] == k); }', '  }', '}']

def evict_loop(seg, other):
  # loop over `seg` (pop_back until cost_to_free == 0 or empty); `other` segment is untouched
  return [
    "invariant self.inv(), self.within(&*old(self)),",
    "  forall|i: int, j: int| 0 <= i < j < victims.len() ==> victims[i] != victims[j],",
    "  forall|i: int| 0 <= i < victims.len() ==> old(self).tracked(#[trigger] victims[i]) && !self.tracked(victims[i]),",
    "  forall|k: K| old(self).tracked(k) && !self.tracked(k) ==> exists|i: int| 0 <= i < victims.len() && #[trigger] victims[i] == k,",
    "  total_cost_freed as int == old(self).sum() - self.sum(),",
    "  old(self).sum() <= u64::MAX,",
    "  cost_to_free as int == (if total_cost_freed >= ctf0 { 0 } else { ctf0 - total_cost_freed }),",
  ] + (["  cost_to_free == 0 || self.probationary.view().len() == 0,"] if seg == "protected" else []) + [
    "ensures cost_to_free == 0 || self.%s.view().len() == 0," % seg,
    "decreases self.%s.view().len()" % seg,
  ]

UNIT = {
  "name": "policy_slru",
  "source": "cache/src/policy/slru.rs",
  "uses": [],
  "prelude": policy_prelude(os.path.join(_here, "lib")) + PRELUDE2,
  "rewrites": POLICY_REWRITES,
  "items": [
    {"kind": "enum", "name": "AdmissionDecision", "source": "cache/src/policy/mod.rs"},
    {"kind": "struct", "name": "SlruState", "keep": ["probationary", "protected"]},
    {"kind": "struct", "name": "SlruPolicy", "keep": ["state", "prob_capacity", "prot_capacity"]},

    {"kind": "fn", "name": "maintain_capacities", "impl": SIMPL, "impl_as": "impl SlruState",
     "requires": ["old(self).inv()"],
     "ensures": ["final(self).inv()", "final(self).same_tracking(&*old(self))", "final(self).sum() == old(self).sum()",
                 "total(final(self).protected.view()) <= prot_capacity"],
     "loops": [{"at": "while self.protected.current_total_cost() > prot_capacity {", "clauses": MAINT_INV}],
     "splices": MAINT_SPLICES,
     "obligation": {"id": "policy.v.slru.maintain_capacities", "props": ["C14"], "bound": "unbounded: demotion never changes what is tracked nor any recorded cost"}},

    {"kind": "fn", "name": "admit_internal", "impl": SIMPL,
     "requires": ["old(self).inv()", "old(self).sum() + cost <= u64::MAX"],
     "ensures": ["final(self).inv()", "final(self).tracked(key)",
                 "!has_key(old(self).protected.view(), key) ==> final(self).cost(key) == cost",
                 "final(self).sum() <= old(self).sum() + cost",
                 "forall|j: K| j != key ==> final(self).tracked(j) == old(self).tracked(j) && final(self).cost(j) == old(self).cost(j)"],
     "splices": [{"before": "if !self.protected.contains(&key) && !self.probationary.contains(&key) {", "insert": [
       "proof {",
       "  let o = old(self).probationary.view();",
       "  lemma_without_keys(o, key); lemma_without_cost(o, key); lemma_without_nodup(o, key); lemma_without_total(o, key);",
       "  lemma_cons((key, cost), without(o, key)); lemma_total_nonneg(without(o, key)); lemma_total_nonneg(old(self).protected.view());",
       "}"]}],
     "obligation": {"id": "policy.v.slru.admit_internal", "props": ["C14"], "bound": "unbounded (sum of costs + cost <= u64::MAX)"}},

    {"kind": "fn", "name": "access_internal", "impl": SIMPL,
     "requires": ["old(self).inv()", "old(self).sum() + cost <= u64::MAX"],
     "ensures": ["final(self).inv()",
                 "forall|j: K| final(self).tracked(j) == old(self).tracked(j)",
                 "forall|j: K| j != *key && old(self).tracked(j) ==> final(self).cost(j) == old(self).cost(j)",
                 "old(self).tracked(*key) ==> final(self).cost(*key) == cost",
                 "final(self).sum() <= old(self).sum() + cost"],
     "splices": [
       {"before": "if self.protected.contains(key) {", "insert": [
         "proof {",
         "  let o = old(self).protected.view(); let k = *key;",
         "  lemma_without_keys(o, k); lemma_without_cost(o, k); lemma_without_nodup(o, k); lemma_without_total(o, k);",
         "  lemma_cons((k, cost), without(o, k)); lemma_total_nonneg(without(o, k));",
         "  let q = old(self).probationary.view();",
         "  lemma_without_keys(q, k); lemma_without_cost(q, k); lemma_without_nodup(q, k); lemma_without_total(q, k); lemma_total_nonneg(without(q, k));",
         "}"]},
       {"before": "self.maintain_capacities(prot_capacity);", "insert": [
         "proof {",
         "  let o = old(self).protected.view(); let q = old(self).probationary.view(); let k = *key;",
         "  assert(has_key(q, k));",
         "  assert(!has_key(o, k));",
         "  lemma_without_absent(o, k);",
         "  lemma_cons((k, cost), o);",
         "  assert(self.protected.view() == seq![(k, cost)] + o);",
         "  assert(self.probationary.view() == without(q, k));",
         "  assert forall|j: K| !(has_key(self.probationary.view(), j) && has_key(self.protected.view(), j)) by {",
         "    if j != k && has_key(self.probationary.view(), j) && has_key(self.protected.view(), j) { assert(has_key(q, j)); assert(has_key(o, j)); }",
         "  }",
         "  assert(self.inv());",
         "}"]},
     ],
     "obligation": {"id": "policy.v.slru.access_internal", "props": ["C14"], "bound": "unbounded (sum of costs + cost <= u64::MAX)"}},

    {"kind": "fn", "name": "evict_items", "impl": SIMPL,
     "requires": ["old(self).inv()"],
     "ensures": ["evict_post(&*old(self), &*final(self), r.0@, r.1)",
                 "r.1 >= cost_to_free || (final(self).probationary.view().len() == 0 && final(self).protected.view().len() == 0)"],
     "loops": [
       {"at": "while cost_to_free > 0 {", "nth": 0, "of": 2, "clauses": evict_loop("probationary", "protected")},
       {"at": "while cost_to_free > 0 {", "nth": 1, "of": 2, "clauses": evict_loop("protected", "probationary") + []},
     ],
     "splices": [
       {"before": "let mut victims = Vec::new();", "insert": ["let ghost ctf0 = cost_to_free;"]},
       {"before": "victims.push(key);", "nth": 0, "of": 2, "insert": ["let ghost vpre = victims@;"]},
       {"after": "victims.push(key);", "nth": 0, "of": 2, "insert": PUSH_PROOF},
       {"before": "victims.push(key);", "nth": 1, "of": 2, "insert": ["let ghost vpre = victims@;"]},
       {"after": "victims.push(key);", "nth": 1, "of": 2, "insert": PUSH_PROOF},
       {"before": "if let Some((key, cost)) = self.probationary.pop_back() {", "insert": ["let ghost pre = *self;"]},
       {"after": "if let Some((key, cost)) = self.probationary.pop_back() {", "insert": [
         "proof { lemma_drop_last(pre.probationary.view()); lemma_total_nonneg(self.probationary.view()); lemma_total_nonneg(self.protected.view()); assert(pre.inv()); }"]},
       {"before": "if let Some((key, cost)) = self.protected.pop_back() {", "insert": ["let ghost pre = *self;"]},
       {"after": "if let Some((key, cost)) = self.protected.pop_back() {", "insert": [
         "proof { lemma_drop_last(pre.protected.view()); lemma_total_nonneg(self.probationary.view()); lemma_total_nonneg(self.protected.view()); assert(pre.inv()); }"]},
     ],
     "obligation": {"id": "policy.v.slru.evict_items", "props": ["C14"], "bound": "unbounded: every state, every cost_to_free, any number of iterations of the three loops"}},

    # ---- the CachePolicy impl (these are the functions the cache calls) --------------------------------
    {"kind": "fn", "name": "on_access", "impl": PIMPL, "impl_as": "impl SlruPolicy",
     "requires": ["old(self).state.inv()", "old(self).state.sum() + cost <= u64::MAX"],
     "ensures": ["final(self).state.inv()", "final(self).prot_capacity == old(self).prot_capacity",
                 "forall|j: K| final(self).state.tracked(j) == old(self).state.tracked(j)",
                 "forall|j: K| j != *key && old(self).state.tracked(j) ==> final(self).state.cost(j) == old(self).state.cost(j)"],
     "obligation": {"id": "policy.v.slru.on_access", "props": ["C14"], "bound": "unbounded: an access never changes what is tracked"}},
    {"kind": "fn", "name": "on_admit", "impl": PIMPL,
     "requires": ["old(self).state.inv()", "old(self).state.sum() + cost <= u64::MAX"],
     "ensures": ["final(self).state.inv()", "r matches AdmissionDecision::Admit",
                 "final(self).state.tracked(*key)",
                 "forall|j: K| j != *key ==> final(self).state.tracked(j) == old(self).state.tracked(j) && final(self).state.cost(j) == old(self).state.cost(j)",
                 # "re-admitting a key updates its cost rather than duplicating it"
                 "final(self).state.cost(*key) == cost"],
     "splices": [{"before_tail": True, "insert": [
       "proof {",
       "  let k = *key;",
       "  let o = old(self).state.probationary.view(); let q = old(self).state.protected.view();",
       "  lemma_without_keys(o, k); lemma_without_cost(o, k); lemma_cons((k, cost), without(o, k));",
       "  lemma_without_keys(q, k); lemma_without_cost(q, k); lemma_cons((k, cost), without(q, k));",
       "}"]},
       {"at_start": True, "insert": [
       "proof {",
       "  let k = *key;",
       "  let o = old(self).state.probationary.view(); let q = old(self).state.protected.view();",
       "  lemma_without_nodup(o, k); lemma_without_total(o, k); lemma_total_nonneg(without(o, k)); lemma_total_nonneg(q);",
       "  lemma_without_nodup(q, k); lemma_without_total(q, k); lemma_total_nonneg(without(q, k)); lemma_total_nonneg(o);",
       "}"]}],
     "obligation": {"id": "policy.v.slru.on_admit", "props": ["C14"], "bound": "unbounded (sum of costs + cost <= u64::MAX)"}},
    {"kind": "fn", "name": "on_remove", "impl": PIMPL,
     "requires": ["old(self).state.inv()"],
     "ensures": ["final(self).state.inv()", "!final(self).state.tracked(*key)",
                 "forall|j: K| j != *key ==> final(self).state.tracked(j) == old(self).state.tracked(j) && final(self).state.cost(j) == old(self).state.cost(j)"],
     "splices": [{"at_start": True, "insert": [
       "proof {",
       "  let k = *key;",
       "  let o = old(self).state.probationary.view(); let q = old(self).state.protected.view();",
       "  lemma_without_keys(o, k); lemma_without_cost(o, k); lemma_without_nodup(o, k); lemma_without_total(o, k);",
       "  lemma_without_keys(q, k); lemma_without_cost(q, k); lemma_without_nodup(q, k); lemma_without_total(q, k);",
       "}"]}],
     "obligation": {"id": "policy.v.slru.on_remove", "props": ["C14"], "bound": "unbounded"}},
    {"kind": "fn", "name": "evict", "impl": PIMPL,
     "requires": ["old(self).state.inv()"],
     "ensures": ["evict_post(&old(self).state, &final(self).state, r.0@, r.1)",
                 "r.1 >= cost_to_free || (forall|k: K| !final(self).state.tracked(k))"],
     "obligation": {"id": "policy.v.slru.evict", "props": ["C14"], "bound": "unbounded"}},
    {"kind": "fn", "name": "clear", "impl": PIMPL,
     "requires": ["old(self).state.inv()"],
     "ensures": ["final(self).state.inv()", "forall|k: K| !final(self).state.tracked(k)"],
     "obligation": {"id": "policy.v.slru.clear", "props": ["C14"], "bound": "unbounded"}},
  ],
}
