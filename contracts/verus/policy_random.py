# Verus unit: RandomPolicy (cache/src/policy/random.rs) verbatim, over vstd's specification of std's HashMap
# (view: Map<K, u64> = tracked key -> recorded cost). The random pick itself (`items.keys().choose(&mut rng)`,
# rand's IteratorRandom over a hashbrown iterator) is replaced by an ASSUMED stand-in `choose_key`: it returns
# some key of the map, and None only for an empty map - WHICH key is left arbitrary, so the proof covers every
# outcome of the generator.
import os
_here = os.path.dirname(os.path.abspath(__file__))
exec(open(os.path.join(_here, "lib", "policy_common.py")).read())
IMPL = "impl<K, V> CachePolicy<K, V> for RandomPolicy<K>"
OLD = "old(self).items@"
NEW = "final(self).items@"
PRELUDE = """
pub type K = u64;   // the policy code is parametric in K: Eq + Hash + Clone and never inspects keys otherwise
// sum of the recorded costs (in m) of a sequence of keys
pub open spec fn vsum(m: Map<K, u64>, v: Seq<K>) -> int decreases v.len() {
  if v.len() == 0 { 0 } else { vsum(m, v.drop_last()) + m[v.last()] as int }
}
// "only tracked keys, no key twice"
pub open spec fn tracked_distinct(m: Map<K, u64>, v: Seq<K>) -> bool {
  v.no_duplicates() && forall|i: int| 0 <= i < v.len() ==> m.contains_key(#[trigger] v[i])
}
// the recorded costs of any set of tracked keys add up to at most u64::MAX (the cache's own cost gauge is a u64)
pub open spec fn bounded_costs(m: Map<K, u64>) -> bool {
  forall|s: Seq<K>| #[trigger] tracked_distinct(m, s) ==> vsum(m, s) <= u64::MAX
}
// ASSUMED: rand::seq::IteratorRandom::choose over HashMap::keys() yields an element of the iterator, None iff it is empty
#[verifier::external_body]
pub fn choose_key(items: &HashMap<K, u64>) -> (r: Option<&K>)
  ensures r matches Some(k) ==> items@.contains_key(*k), r.is_none() ==> items@.len() == 0,
{ unimplemented!() }
"""
UNIT = {
  "name": "policy_random",
  "source": "cache/src/policy/random.rs",
  "uses": ["use std::collections::HashMap;"],
  "prelude": PRELUDE,
  "rewrites": [
    [r"Mutex<HashMap<K, u64>>", r"HashMap<K, u64>", "lock elision: the parking_lot::Mutex only provides exclusive access to the policy state; the extracted method takes &mut self instead"],
    [r"self\.(\w+)\.lock\(\)", r"(&mut self.\1)", "lock elision (see above): `self.f.lock()` -> `&mut self.f`"],
    [r"\(&self\b", r"(&mut self", "lock elision (see above): methods that lock take `&mut self` in the extracted text"],
    [r"\bRandomPolicy<K>", r"RandomPolicy", "K := u64 (type alias in the prelude): the code is parametric in K: Eq + Hash + Clone"],
    [r"let mut rng = rand::rng\(\);", r"", "the generator is dropped: the pick is the assumed stand-in `choose_key`, arbitrary among the tracked keys"],
    [r"items\.keys\(\)\.choose\(&mut rng\)", r"choose_key(&items)", "ASSUMED contract instead of rand's IteratorRandom::choose on a hashbrown iterator (outside Verus' subset): returns a key of the map, None only if the map is empty"],
  ],
  "items": [
    {"kind": "enum", "name": "AdmissionDecision", "source": "cache/src/policy/mod.rs"},
    {"kind": "struct", "name": "RandomPolicy", "keep": ["items"]},
    {"kind": "fn", "name": "on_access", "impl": IMPL, "impl_as": "impl RandomPolicy",
     "requires": [],
     "ensures": ["%s == %s" % (NEW, OLD)],
     "obligation": {"id": "policy.v.random.on_access", "props": ["C14"], "bound": "unbounded: an access never changes what is tracked"}},
    {"kind": "fn", "name": "on_admit", "impl": IMPL,
     "requires": [],
     "ensures": [
       "r matches AdmissionDecision::Admit",
       # S-POL: tracked (exactly once: a map) with the NEW cost, no other key changes
       "%s == %s.insert(*key, cost)" % (NEW, OLD),
       "%s.contains_key(*key) && %s[*key] == cost" % (NEW, NEW),
       "forall|j: K| j != *key ==> (%s.contains_key(j) == %s.contains_key(j) && (%s.contains_key(j) ==> %s[j] == %s[j]))" % (NEW, OLD, OLD, NEW, OLD),
     ],
     "obligation": {"id": "policy.v.random.on_admit", "props": ["C14"], "bound": "unbounded: every map, key, cost"}},
    {"kind": "fn", "name": "on_remove", "impl": IMPL,
     "requires": [],
     "ensures": ["%s == %s.remove(*key)" % (NEW, OLD), "!%s.contains_key(*key)" % NEW],
     "obligation": {"id": "policy.v.random.on_remove", "props": ["C14"], "bound": "unbounded"}},
    {"kind": "fn", "name": "evict", "impl": IMPL,
     "requires": ["bounded_costs(%s)" % OLD],
     "ensures": [
       # victims were tracked, no key twice
       "tracked_distinct(%s, r.0@)" % OLD,
       # exactly the victims stop being tracked, nothing else changes
       "%s == %s.remove_keys(r.0@.to_set())" % (NEW, OLD),
       # reports exactly their recorded costs
       "r.1 as int == vsum(%s, r.0@)" % OLD,
       # frees at least the requested cost unless nothing is tracked any more
       "r.1 >= cost_to_free || %s.len() == 0" % NEW,
     ],
     "loops": [{"at": "while cost_to_free > 0 && !items.is_empty() {", "clauses": [
       "invariant tracked_distinct(m0, victims@), bounded_costs(m0),",
       "  items@ == m0.remove_keys(victims@.to_set()),",
       "  total_cost_freed as int == vsum(m0, victims@),",
       "  cost_to_free as int == (if total_cost_freed >= ctf0 { 0 } else { ctf0 - total_cost_freed }),",
       "ensures tracked_distinct(m0, victims@),",
       "  items@ == m0.remove_keys(victims@.to_set()),",
       "  total_cost_freed as int == vsum(m0, victims@),",
       "  total_cost_freed >= ctf0 || items@.len() == 0,",
       "decreases items@.len()",
     ]}],
     "splices": [
       {"before": "let mut victims = Vec::new();", "insert": ["let ghost ctf0 = cost_to_free;", "let ghost m0 = self.items@;"]},
       {"after": "if let Some(cost) = items.remove(&key_to_evict) {", "insert": [
         "proof {",
         "  let v2 = victims@.push(key_to_evict);",
         "  assert(v2.drop_last() == victims@);",
         "  assert(tracked_distinct(m0, v2));",
         "  assert(v2.to_set() == victims@.to_set().insert(key_to_evict));",
         "  assert(m0.remove_keys(v2.to_set()) == m0.remove_keys(victims@.to_set()).remove(key_to_evict));",
         "}"]},
     ],
     "obligation": {"id": "policy.v.random.evict", "props": ["C14"], "bound": "unbounded: every map with sum of costs <= u64::MAX, every cost_to_free, any number of iterations, EVERY outcome of the random pick"}},
    {"kind": "fn", "name": "clear", "impl": IMPL,
     "requires": [],
     "ensures": ["%s.len() == 0" % NEW],
     "obligation": {"id": "policy.v.random.clear", "props": ["C14"], "bound": "unbounded"}},
  ],
}
